#!/usr/bin/env python3
"""Writes the C19 evidence and replay file when the static-assertion crate (tools/sendsync) does not type-check:
the clause "Regex, Match and Error are Send + Sync" is violated. Called by tools/run_check.sh only."""
import json, os, re, sys, time
log, tier = sys.argv[1], sys.argv[2]
root = os.environ.get("VERIF_ROOT", os.path.dirname(os.path.dirname(os.path.abspath(__file__))))
text = open(log, errors="replace").read()
errs = re.findall(r"error\[E0277\]: ([^\n]*)", text)
types = sorted(set(re.findall(r"assert_send_sync::<regress::(\w+)>", text)))
os.makedirs(os.path.join(root, "replays"), exist_ok=True)
replay = os.path.join(root, "replays", "C19", "send_sync.json")
os.makedirs(os.path.dirname(replay), exist_ok=True)
case = {"property": "C19", "kind": "static-assertion", "what": "a public type is not Send + Sync", "types": types,
        "compiler_errors": errs[:6], "how_to_replay": "cd /verif/tools/sendsync && cargo check --offline"}
json.dump(case, open(replay, "w"), indent=1)
t0 = float(os.environ.get("VERIF_T0", time.time()))
ev = {"property_id": "C19", "tier": tier, "seed": 0, "level": "model_checking",
      "coverage": {"evaluations": 3, "distinct_nontrivial": 3,
                   "rule": "compile-time clause only: assert_send_sync::<T>() for T in {Regex, Match, Error} (tools/sendsync); it failed, so the schedule exploration was not run",
                   "samples": [case], "states": 3, "transitions": 3, "traces_validated_against_impl": 3, "exhaustive": False,
                   "violation_clusters": [{"cluster": "a public type is not Send + Sync", "types": types}]},
      "assumptions": ["the type checker's verdict on the auto traits"], "wall_s": round(time.time() - t0, 2), "violations": 1}
json.dump(ev, open(os.path.join(root, "evidence", "C19.json"), "w"), indent=1)
print("C19 static assertion failed: " + "; ".join(errs[:3]))
print("VIOLATION property=C19 replay=%s" % replay)
print("  cluster=a public type is not Send + Sync types=%s" % ",".join(types))
