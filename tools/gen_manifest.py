#!/usr/bin/env python3
"""Writes MANIFEST.json from the table below (kept in one place so it stays valid)."""
import json, os
ROOT = os.path.dirname(os.path.dirname(os.path.abspath(__file__)))
SWEEP_NOTE = ("beyond the small-scope enumeration every sweep also runs size-parameterised families (about 60 templates at sizes around 16..257, thorough to 1025: long literals, many groups / alternatives, counts, classes of a hundred intervals, deep nesting, long haystacks) and a prefilter / alignment family; trusted: the reference model in mc/src/refmatch.rs (ES2025 22.2.2 transcribed, cross-checked against V8 by tools/v8_crosscheck) "
              "and the oracle fold tables (ICU 78.2 / Unicode 17, cross-checked against Rust std 17 and regex-syntax 16); bounded by the pattern sizes, "
              "haystack lengths and alphabets that evidence/<id>.json lists per profile")
checks = {
 "C01": ("model_checking", "bounded-exhaustive enumeration of (pattern AST, flags, haystack, start) against an ES2025 reference matcher",
         "Every pattern AST of nineteen focused profiles (plus every token string the reference parser accepts) up to a size bound x every flag set of the profile x every haystack up to a length bound x every start offset is run through the real compiler and the public find_from entry point of the backtracking executor and compared (range and every capture) with a clause-by-clause transcription of the ECMAScript pattern semantics; every pattern is also compiled through the string entry points (with_flags(&str,&str), new, FromStr), which must build the same program; plus every string over {[ ] ( ) a \\ 1} up to length 8 (9) with a group and a backslash, read semantically (how the group pre-scan makes \\1 a backreference or an octal escape). Exhaustive within the stated bounds; says nothing beyond them.", "4 C01"),
 "C02": ("model_checking", "bounded-exhaustive differential exploration: backtracking executor vs PikeVM on the same program",
         "Same enumerated space as C01; the whole match sequence of the backtracking executor is compared with the PikeVM executor (which clones state at every split and so has no undo log), in UTF-8 mode and, on ASCII haystacks, in ASCII mode.", "4 C02"),
 "C03": ("model_checking", "bounded-exhaustive differential exploration: optimised vs no_opt pipeline",
         "Every enumerated pattern is compiled with and without the IR optimiser; both must compile, and the match sequences (with captures) must be equal on every haystack and start, under both executors.", "4 C03"),
 "C04": ("model_checking", "bounded-exhaustive differential exploration: program with vs without its start predicate",
         "Every enumerated pattern is compiled once normally and once with StartPredicate::Arbitrary substituted; match sequences must be equal on every haystack and every start offset; plus 64k classes of one or two items over the points where the UTF-8 lead byte changes. Evidence reports which predicate kinds were reached and how often the predicate skipped work.", "4 C04"),
 "C05": ("model_checking", "bounded-exhaustive exploration with a step counter (fuel) as termination monitor",
         "Every pattern of the nested-quantifier profiles x every haystack x both executors x opt/no_opt runs under a step counter. Where K=64 x (the reference matcher's own step count + |haystack| + |pattern| + 16) is below the fuel cap, fuel is set to that bound and exhausting it is the violation (the property's own K x reference clause); where the reference itself is too expensive the case is counted as undecided, never as a verdict. A backtrack store not bounded by (groups + 4) x the steps taken is a violation too.", "4 C05"),
 "C09": ("model_checking", "bounded-exhaustive exploration of iterator call histories against a lastIndex unfold model",
         "For every enumerated (pattern, haystack, start) the iterator is driven through its whole call history (next() until None plus three more calls) with the invariants checked after every call (haystacks of length 2-3 also doubled, so that a second match repeats the first), and its sequence compared with the unfold of first-match-from-cursor on fresh iterators and with the reference matcher's matchAll; all four executor/input modes.", "4 C09"),
 "C13": ("model_checking", "bounded-exhaustive differential exploration: ASCII vs UTF-8 entry points on ASCII haystacks",
         "Every enumerated pattern (including ones mentioning non-ASCII characters and their ASCII fold partners) x every ASCII haystack x every start up to len+1: the public find_from_ascii must equal find_from (and the PikeVM pair likewise), for the optimised and the no_opt program; plus 39 patterns over every ASCII string of length <= 2.", "4 C13"),
}
checks.update({
 "C16": ("model_checking", "bounded-exhaustive enumeration of patterns with named / duplicate-named groups; accessor identities checked on every match",
         "Every AST of the named-group profile (named, unnamed, duplicate-named groups in alternatives, lookbehind, quantifiers) plus the look, core and fail (never-matching atoms next to groups in loops and assertions) profiles and a duplicate-name family x haystacks x every match of find_iter: captures equal the reference matcher's (left-paren order, last participation), and group/groups/named_group/named_groups agree with captures and with each other, names in source order, participating duplicate reported; checked on the matches of the default executor and of the PikeVM.", "4 C16"),
 "C17": ("model_checking", "exhaustive enumeration of replacement templates x a menu of match sequences against a splice-and-expand model",
         "All templates over a 10-character alphabet up to length 5 (6 thorough), all sequences of <= 4 (5) whole-reference tokens, and $ followed by every digit run of length <= 7 (9) over {0 1 2 6 9}, x 24 (pattern, haystack) pairs covering no/one/adjacent/empty matches, multibyte boundaries, non-participating, named and duplicate-named groups: replace and replace_all must equal the ten-line model applied to the match sequence of the reference parser + reference matcher (nothing read back from the subject); closure variants with identity and constant closures and a closure that renders everything it can read from its Match; every call under fuel.", "4 C17"),
 "C18": ("model_checking", "exhaustive enumeration of strings s, flag sets and derived haystacks against substring search",
         "All strings over a 29-character alphabet (every syntax character, class punctuators, case pairs and letters with three- and four-member case classes, multibyte, newline) up to length 3 (4 thorough) plus 55 long strings (caseless runs of 8..40 characters alone, before / after one cased letter) with every single-position near miss, x all 24 flag sets x haystacks derived from s (occurrences, near misses, every member of each character's case class): escape(s) compiles, only inserts backslashes, and its matches are exactly the (case-insensitive under i) occurrences of s.", "4 C18"),
})
checks.update({
 "C10": ("model_checking", "complete enumeration of the code space (0..=0x10FFFF x both modes) against an independent Unicode 17 oracle, at hook level and through the public API",
         "Exhaustive, not bounded, at hook level: for every code point and both modes the partition induced by Canonicalize, the compile-time literal expansion and the class closure equal the oracle derived from ICU 78.2. Through the public API /c/, /[c]/, /[^c]/ (with the program's start predicate and with it removed), backreference, \\w \\W [\\w], and every \\b / \\B position with the character on either side (both executors), under i, iu, iv for every candidate code point (quick) and /c/ for every scalar over the all-scalars haystack (thorough).", "4 C10"),
 "C11": ("model_checking", "complete enumeration: every candidate property expression x {u,v} x {\\p,\\P} for acceptance, every accepted expression over all scalar values for membership, a judged universe of 73k strings for properties of strings",
         "Acceptance of 42k candidate expressions equals the ES tables as implemented by V8; each of the 1,714 accepted expressions is matched over a haystack holding every scalar value and must denote exactly the ICU 78.2 (Unicode 17) set, \\P its complement, with the program's start predicate and with it removed; every accepted expression is also used with both polarities in one pattern (5 templates x 6 member / non-member haystack shapes); pairs of 16 large properties in one class (union, &&, --, negated union) must equal the algebra of the two oracle sets on every interval edge; pairs of properties of strings in five set-operation templates with nested unions; properties of strings are compared by membership over a universe of 73,056 judged strings, and every member string must be the whole first match of the unanchored bare, in-class and lookbehind forms (longest first).", "4 C11"),
})
checks.update({
 "C07": ("exploration", "exhaustive enumeration of all short token / raw code point strings in-process, plus a finite family of size-parameterised shapes each in a resource-limited child process",
         "Every string over a 34-token alphabet up to length 4 (5 thorough) and every raw code point string (surrogates, NUL, U+10FFFF) up to length 5 (6) x 7 flag sets must compile to Ok or Err under catch_unwind with a 10 s watchdog; likewise every prefix / suffix of every C08 seed pattern with 15 cut-off construct openings, and every code point of interest (all with a case partner, encoding-length boundary neighbours, 0..=U+0100; thorough: all 1,114,112) substituted into 20 templates x {optimised, no_opt}, every run over three digits up to length 10 in 18 numeric contexts, and every ordered pair of 18 large properties in 9 class templates; 40 adversarial shapes x sizes up to 65536 (10^6 thorough) x {\"\",u,v} run in child processes (8 MiB / 2 MiB stacks): a stack-exhaustion abort, a panic or a timeout on a small input is a violation; an allocation failure under the 6 GiB cap is a violation for patterns of at most 2^20 code points; runs cut by the harness's caps beyond that envelope are reported as caps, not verdicts.", "4 C07"),
})
checks.update({
 "C08": ("model_checking", "exhaustive enumeration of all token strings up to a length bound x three grammar modes, plus all single-token edits of printed patterns, against a reference parser for the ES2025 grammar",
         "Every string over a 34-token alphabet up to length 4 (5 thorough) under legacy / u / v, and every single-token edit (delete, replace, insert) of ~20k seed patterns, plus every string over the focused alphabet {[ ] ( ) a \\ 1} up to length 8 (9), size-parameterised shapes below the documented limits, and every sequence of <= 5 (6) words from a 16-word property-expression vocabulary as the body of \\p{..} (bare, in a class, unterminated), and every name in the subject's own property tables in 11 templates, must be accepted by with_flags exactly when the reference parser (ES2025 22.2.1 + Annex B.1.2 + early errors) accepts it - both directions. The reference parser agrees with V8 11.3 on all 4.1 million (token string <= 4, mode) pairs.", "4 C08"),
 "C12": ("model_checking", "bounded-exhaustive enumeration of class expressions (operator nesting depth, operand menu) and of every spelling over the class syntax alphabet, against the ES2025 set semantics",
         "Class expressions built from 24 operand kinds (incl. strings spelt in the other case and multi-interval operands) with union / && / -- and negation to nesting depth 1 (2 thorough) under v and iv, legacy brackets with Annex B forms under \"\", i, u, iu, and every string '[' + s (|s| <= 6, 7 thorough) over the class syntax alphabet that parses as one class: /^E$/ and /E/ are matched against every string of length <= 2 over an 18-character universe and compared with CompileToCharSet / CharacterSetMatcher / ClassStrings as transcribed from the specification; plus ~6,000 classes of one or two items over the UTF-8 / UTF-16 encoding-length boundary points against every boundary neighbour.", "4 C12"),
})
checks.update({
 "C06": ("exploration", "bounded-exhaustive exploration with invariant monitors (debug assertions, checked indexing, range validity) in three build variants whose per-pattern result digests must coincide",
         "Every AST of ten profiles (incl. case-insensitive backreferences over fold partners of different encoded lengths, and never-matching atoms next to groups) x haystacks over all four UTF-8 sequence lengths (every adjacency, empty, both ends) x every start the API accepts x every entry point x opt/no_opt is run in the default release build, in a debug-assertions + overflow-checks build (every debug_assert on positions / indices becomes a per-step invariant) and in an index-positions + prohibit-unsafe build (any out-of-range access panics): no panic, every reported range within the haystack and on char boundaries, and identical results in all three builds. Each build variant explores in a child process, so that a crash of the unchecked build is reported as the violation it is. The u16 entry points are covered by C14 (built with debug assertions).", "4 C06"),
 "C14": ("model_checking", "bounded-exhaustive differential exploration of the UTF-16 / UCS-2 entry points against the UTF-8 entry point, plus exhaustive enumeration of raw u16 slices with lone surrogates",
         "Built with the utf16 feature and debug assertions: every AST of eight profiles (incl. supplementary-plane fold partners under case-insensitive backreferences) x every string over {a, e-acute, euro, U+1F600, LF} up to length 3 (4 thorough) x every start: find_from_utf16 on the UTF-16 encoding (offsets mapped back) equals find_from, find_from_ucs2 likewise on BMP-only text; a sample of those patterns plus surrogate-specific ones x every u16 slice over {0061, D83D, DE00, DC00, 20AC} up to length 4 (5) x every start x both entry points: terminates under fuel, no panic, ranges within the slice.", "4 C14"),
 "C15": ("model_checking", "configuration enumeration: six feature sets x one exhaustive case set, per-pattern result digests compared with the default build",
         "default, index-positions, prohibit-unsafe, index-positions+prohibit-unsafe, utf16 and no-std+alloc builds of the runner each replay the same enumerated case set (the C06 space plus every member of a non-trivial case-folding class as literal and bracket under i / iu) through the string APIs and emit a digest per pattern (compiled-or-error, all match ranges and captures); any difference from the default build is a violation and is located with mc c15-dump.", "4 C15"),
})
checks.update({
 "C20": ("model_checking", "bounded-exhaustive exploration of next()/next_back() call histories of the real searcher, contract invariants checked on every history",
         "Built with the pattern feature on nightly: 39 regexes x every haystack over {a, 1, e-acute, U+1F600} up to length 3 (4 thorough) x 26 call histories (forward only, backward only, every interleaving with at most two direction switches), each direction run to Done plus two further calls: steps adjacent and non-overlapping from their end of the haystack, on char boundaries, covering the haystack at Done, forward Match steps = find_iter, backward Match steps = find_iter reversed, each direction unaffected by the other; then str::find / contains / matches / match_indices / split / rfind / rmatch_indices / rsplit / starts_with / ends_with against a find_iter model.", "4 C20"),
})
checks.update({
 "C19": ("model_checking", "preemption-bounded exhaustive exploration of thread schedules of the real executors under a controlled scheduler (scheduling point = interpreted instruction), plus exhaustive enumeration of query histories",
         "Real OS threads searching one shared &Regex (or clones) run under a baton scheduler whose scheduling points are the per-instruction step hook; every schedule with at most 2 (3 thorough) preemptions of 24 (40) scenarios is executed and each query's result compared with its sequential result on a fresh compile, with the compiled program's fingerprint unchanged; a recorded schedule is replayed twice as a determinism gate. Every ordered history of 1-3 steps over a menu of 9 (regex, haystack) pairs with regexes of different modes, in order and with the first step's iterator kept alive across the others, against the reference matcher; every ordered history of 1-3 queries from two 12-query menus on one Regex (the second: case-insensitive backreference queries whose characters alias under truncation or fold across planes) and every buffer-reuse history must give the fresh results. The clause 'Regex, Match, Error are Send + Sync' is decided first by type-checking tools/sendsync; a failure there is the reported violation. A free-running four-thread monitor is included and labelled not exhaustive.", "4 C19"),
})
not_applicable = {
}
PENDING = "check not built yet in this round (planned in DESIGN.md section 10); nothing is claimed for it until it exists"
all_ids = ["C%02d" % i for i in range(1, 21)]
m = {
 "version": 1,
 "setup_cmd": "./setup.sh",
 "hooks": {
  "guard": "cargo feature verif-hooks (off by default)",
  "enable": "the runner crate /verif/mc depends on /repo by path with features = [verif-hooks, ...]; checks build it with cargo build --release --offline into /verif/.build/<variant>",
  "baseline_off_cmd": "cd /repo && cargo test --workspace --no-fail-fast --offline",
  "source_commits": ["fa0e070", "f90043b"],
  "add_only": True
 },
 "engines": [
  {"name": "mc", "path": "mc", "serves_properties": sorted(checks.keys()),
   "kind_free_text": "Rust runner: size-ordered exhaustive AST/haystack enumerators, ES2025 reference matcher, parallel explorer, evidence and replay writers"}
 ],
 "checks": [],
 "not_applicable": [],
 "notes": "All checks are bounded-exhaustive explorations of the real code (stateless model checking over an input/history alphabet); see DESIGN.md. Exit 2/3 = machinery failure, never a verdict."
}
for pid in all_ids:
    if pid in checks:
        cat, tech, text, ref = checks[pid]
        m["checks"].append({
            "property_id": pid,
            "quick_cmd": "./check %s quick" % pid,
            "thorough_cmd": "./check %s thorough" % pid,
            "evidence_file": "/verif/evidence/%s.json" % pid,
            "replay_cmd_template": "./check %s --replay {path}" % pid,
            "engine": "mc",
            "level_claimed": {"category": cat, "text": text, "design_ref": "DESIGN.md section " + ref},
            "level_note": SWEEP_NOTE,
            "technique": tech,
        })
    else:
        m["not_applicable"].append({"property_id": pid, "reason": not_applicable.get(pid, PENDING)})
json.dump(m, open(os.path.join(ROOT, "MANIFEST.json"), "w"), indent=1)
print("wrote MANIFEST.json with", len(m["checks"]), "checks")
