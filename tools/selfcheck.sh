#!/bin/bash
# Oracle / model self-checks (need node with ICU 78 = Unicode 17; not part of any registered check, and
# nothing about the subject is decided here). Writes oracle/SELFCHECK.txt.
set -u
ROOT="$(cd "$(dirname "$0")/.." && pwd)"; cd "$ROOT"
B=.build; mkdir -p $B
( cd mc && CARGO_TARGET_DIR=$ROOT/$B/rel cargo build --release --offline ) >/dev/null 2>&1 || exit 3
( cd tools/xcheck && CARGO_TARGET_DIR=$ROOT/$B/xcheck cargo build --release --offline ) >/dev/null 2>&1 || exit 3
out=oracle/SELFCHECK.txt
{
  echo "# self-checks of the oracles and reference models ($(node -e 'console.log("node "+process.version+", V8 "+process.versions.v8+", ICU "+process.versions.icu+", Unicode "+process.versions.unicode)'))"
  echo "## oracle tables vs Rust std (Unicode 17) and regex-syntax (Unicode 16)"
  $B/xcheck/release/xcheck oracle | grep -v "^PROP DIFF"
  echo "## reference parser vs V8 on every token string of length <= 4, three modes"
  node tools/v8_tokens.js 4 $B/v8_tokens_4 >/dev/null && $B/rel/release/mc xcheck-parse 4 $B/v8_tokens_4 | tail -1
  echo "## reference matcher vs V8 (first match from every lastIndex, all capture indices)"
  for pr in "core 4 3" "look 4 3" "capback 5 3" "nest 4 3" "nestlook 4 3" "utf8 3 2" "icase 2 2" "onechar 2 2" "named 4 3" "vset 3 2" "lit 2 0"; do set -- $pr
    $B/rel/release/mc dump-cases $1 $2 $3 $B/v8_$1.jsonl 2>/dev/null; echo "$1 (size<=$2, haystack<=$3): $(node tools/v8_crosscheck.js $B/v8_$1.jsonl | tail -1)"; rm -f $B/v8_$1.jsonl
  done
  echo "## class semantics (C12 expressions, depth 1) vs V8"
  $B/rel/release/mc dump-classes $B/v8_classes.jsonl 2>/dev/null; echo "classes: $(node tools/v8_crosscheck.js $B/v8_classes.jsonl | tail -1)"; rm -f $B/v8_classes.jsonl
} | tee $out
grep -q "disagreements" $out && ! grep -E " [1-9][0-9]* disagreements" $out >/dev/null
