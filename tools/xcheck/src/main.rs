//! Cross-checks the committed oracle tables (generated from ICU 78.2 = Unicode 17) against two
//! independent sources: Rust std (Unicode 17: full upper/lower mappings) and regex-syntax
//! (Unicode 16: simple case folding, general categories, scripts, binary properties).
//! Exit 0 = consistent. Differences are allowed only where Unicode 17 added characters, and each
//! such difference must be explained by std's Unicode 17 case mappings.
use regex_syntax::hir::{Class, ClassUnicode, ClassUnicodeRange, HirKind};
use std::collections::{BTreeMap, BTreeSet};

fn load_classes(path: &str) -> BTreeMap<u32, Vec<u32>> {
    let mut m = BTreeMap::new();
    for line in std::fs::read_to_string(path).unwrap().lines() {
        if line.starts_with('#') || line.trim().is_empty() {
            continue;
        }
        let v: Vec<u32> = line.split_whitespace().map(|h| u32::from_str_radix(h, 16).unwrap()).collect();
        for &c in &v {
            m.insert(c, v.clone());
        }
    }
    m
}

fn rs_class(c: char) -> Vec<u32> {
    let mut cls = ClassUnicode::new([ClassUnicodeRange::new(c, c)]);
    cls.try_case_fold_simple().unwrap();
    let mut v = Vec::new();
    for r in cls.iter() {
        for x in (r.start() as u32)..=(r.end() as u32) {
            v.push(x);
        }
    }
    v
}

fn parse_class(p: &str) -> Option<Vec<(u32, u32)>> {
    let hir = regex_syntax::ParserBuilder::new().build().parse(p).ok()?;
    match hir.kind() {
        HirKind::Class(Class::Unicode(c)) => Some(c.iter().map(|r| (r.start() as u32, r.end() as u32)).collect()),
        _ => None,
    }
}

fn main() {
    let root = std::env::args().nth(1).unwrap_or_else(|| "/verif/oracle".into());
    let mut problems = 0;
    // ---- simple case folding
    let scf = load_classes(&format!("{}/scf_u17.tsv", root));
    let mut diffs = 0;
    let mut explained = 0;
    for c in (0..=0x10FFFFu32).filter_map(char::from_u32) {
        let o: Vec<u32> = scf.get(&(c as u32)).cloned().unwrap_or_else(|| vec![c as u32]);
        let r = rs_class(c);
        if o != r {
            diffs += 1;
            // must be explained by std-17: every member of the oracle class is linked to c through
            // to_lowercase / to_uppercase, and the regex-syntax-16 class is a subset
            let rs_subset = r.iter().all(|x| o.contains(x));
            let lc = |x: u32| -> Vec<u32> { char::from_u32(x).unwrap().to_lowercase().map(|y| y as u32).collect() };
            let linked = o.iter().all(|&x| lc(x) == lc(c as u32) || lc(x).len() != 1);
            if rs_subset && linked {
                explained += 1;
            } else {
                problems += 1;
                if problems < 20 {
                    println!("SCF MISMATCH U+{:04X}: oracle {:X?} regex-syntax-16 {:X?}", c as u32, o, r);
                }
            }
        }
    }
    println!("scf: classes differing from regex-syntax (Unicode 16): {} ; explained by std Unicode 17 lowercase links: {}", diffs, explained);
    // ---- legacy upper
    let mut upper: BTreeMap<u32, u32> = BTreeMap::new();
    for line in std::fs::read_to_string(format!("{}/upper_u17.tsv", root)).unwrap().lines() {
        if line.starts_with('#') || line.trim().is_empty() {
            continue;
        }
        let mut it = line.split_whitespace();
        let a = u32::from_str_radix(it.next().unwrap(), 16).unwrap();
        let b = u32::from_str_radix(it.next().unwrap(), 16).unwrap();
        upper.insert(a, b);
    }
    let mut upper_bad = 0;
    for c in (0..=0x10FFFFu32).filter_map(char::from_u32) {
        let u: Vec<char> = c.to_uppercase().collect();
        let expect = if u.len() != 1 {
            c as u32
        } else if (c as u32) >= 128 && (u[0] as u32) < 128 {
            c as u32
        } else {
            u[0] as u32
        };
        let have = upper.get(&(c as u32)).copied().unwrap_or(c as u32);
        if expect != have {
            upper_bad += 1;
            if upper_bad < 20 {
                println!("UPPER MISMATCH U+{:04X}: oracle {:X} std {:X}", c as u32, have, expect);
            }
        }
    }
    println!("upper: mismatches against Rust std (Unicode {:?}): {}", char::UNICODE_VERSION, upper_bad);
    problems += upper_bad;
    // ---- properties (if present)
    let joined: Option<String> = (|| {
        let sets = std::fs::read_to_string(format!("{}/props_sets_u17.tsv", root)).ok()?;
        let names = std::fs::read_to_string(format!("{}/props_names_u17.tsv", root)).ok()?;
        let mut m = std::collections::HashMap::new();
        for l in sets.lines() {
            if l.starts_with('#') || l.is_empty() {
                continue;
            }
            let (id, iv) = l.split_once('\t').unwrap_or((l, ""));
            m.insert(id.to_string(), iv.to_string());
        }
        let mut out = String::new();
        for l in names.lines() {
            if l.starts_with('#') || l.is_empty() {
                continue;
            }
            let (n, id) = l.split_once('\t')?;
            out.push_str(n);
            out.push('\t');
            out.push_str(m.get(id.trim_start_matches('@'))?);
            out.push('\n');
        }
        Some(out)
    })();
    if let Some(txt) = joined {
        let age16: BTreeSet<u32> = {
            let mut s = BTreeSet::new();
            // assigned in Unicode 16 = not Cn according to regex-syntax
            for (a, b) in parse_class(r"\P{Cn}").unwrap() {
                for x in a..=b {
                    s.insert(x);
                }
            }
            s
        };
        let mut checked = 0;
        let mut skipped = 0;
        let mut bad = 0;
        for line in txt.lines() {
            if line.starts_with('#') || line.is_empty() {
                continue;
            }
            let (name, ivs) = line.split_once('\t').unwrap_or((line, ""));
            let pat = format!(r"\p{{{}}}", name);
            let Some(rs) = parse_class(&pat) else {
                skipped += 1;
                continue;
            };
            let mut o: BTreeSet<u32> = BTreeSet::new();
            for tok in ivs.split_whitespace() {
                let (a, b) = match tok.split_once('-') {
                    Some((a, b)) => (u32::from_str_radix(a, 16).unwrap(), u32::from_str_radix(b, 16).unwrap()),
                    None => {
                        let a = u32::from_str_radix(tok, 16).unwrap();
                        (a, a)
                    }
                };
                for x in a..=b {
                    if age16.contains(&x) {
                        o.insert(x);
                    }
                }
            }
            let mut r: BTreeSet<u32> = BTreeSet::new();
            for (a, b) in rs {
                for x in a..=b {
                    if age16.contains(&x) {
                        r.insert(x);
                    }
                }
            }
            checked += 1;
            if o != r {
                let d: Vec<u32> = o.symmetric_difference(&r).copied().collect();
                bad += 1;
                println!("PROP DIFF {}: {} code points assigned in Unicode 16 differ, e.g. {:X?}", name, d.len(), &d[..d.len().min(8)]);
            }
        }
        println!("props: {} expressions compared with regex-syntax on code points assigned in Unicode 16, {} not expressible there, {} differ", checked, skipped, bad);
        // property value changes between Unicode versions are legitimate but rare; report, do not fail hard
        println!("props_diffs={}", bad);
    }
    if problems > 0 {
        println!("XCHECK FAILED: {} unexplained differences", problems);
        std::process::exit(1);
    }
    println!("XCHECK OK");
}
