#!/bin/bash
# Builds the runner variant(s) a property needs from /repo's current working tree, then runs it.
set -u
ROOT="$VERIF_ROOT"
ID="$1"; shift
B="$ROOT/.build"
mkdir -p "$B"
build() { # build <variant> <cargo args...>
  local v="$1"; shift
  local log="$B/build_$v.log"
  ( cd "$ROOT/mc" && CARGO_TARGET_DIR="$B/$v" "$@" ) >"$log" 2>&1
  if [ $? -ne 0 ]; then
    echo "MACHINERY: build of variant $v failed (see $log)"; tail -n 30 "$log"; exit 3
  fi
}
case "$ID" in
  C01|C02|C03|C04|C05|C07|C08|C09|C10|C11|C12|C13|C16|C17|C18)
    build rel cargo build --release --offline
    exec "$B/rel/release/mc" "$ID" "$@" ;;
  case)
    build rel cargo build --release --offline
    exec "$B/rel/release/mc" case "$@" ;;
  *)
    echo "MACHINERY: no check registered for $ID"; exit 2 ;;
esac
