#!/bin/bash
# Builds the runner variant(s) a property needs from /repo's current working tree, then runs it.
set -u
ROOT="$VERIF_ROOT"
ID="$1"; shift
B="$ROOT/.build"
mkdir -p "$B"
build() { # build <variant> <cargo args...>
  local v="$1"; shift
  local log="$B/build_$v.log"
  ( cd "$ROOT/mc" && CARGO_TARGET_DIR="$B/$v" "$@" ) >"$log" 2>&1
  if [ $? -ne 0 ]; then
    echo "MACHINERY: build of variant $v failed (see $log)"; tail -n 30 "$log"; exit 3
  fi
}
case "$ID" in
  C19)
    # clause "Regex, Match and Error are Send + Sync": the type checker decides it on a three-line crate.
    # (The runner itself shares a Regex between threads, so it would not build either; deciding the clause
    # first turns that into a verdict instead of a machinery failure.)
    sslog="$B/build_ss.log"
    ( cd "$ROOT/tools/sendsync" && CARGO_TARGET_DIR="$B/ss" cargo check --offline ) >"$sslog" 2>&1
    if [ $? -ne 0 ]; then
      if grep -q 'E0277' "$sslog" && grep -q 'could not compile `sendsync`' "$sslog" && ! grep -q 'could not compile `regress`' "$sslog"; then
        python3 "$ROOT/tools/sendsync_violation.py" "$sslog" "${VERIF_TIER:-quick}"
        exit 1
      fi
      echo "MACHINERY: the static-assertion crate failed to build for another reason (see $sslog)"; tail -n 30 "$sslog"; exit 3
    fi
    build rel cargo build --release --offline
    exec "$B/rel/release/mc" "$ID" "$@" ;;
  C01|C02|C03|C04|C05|C07|C08|C09|C10|C11|C12|C13|C16|C17|C18)
    build rel cargo build --release --offline
    "$B/rel/release/mc" "$ID" "$@"; rc=$?
    if [ $rc -ge 128 ] && [ "${1:-}" != "--replay" ]; then
      # The release runner was killed by a signal. In the unchecked default build a broken internal invariant
      # of the subject is undefined behaviour; the bounds-checked build turns it into a panic, which the
      # runner catches and reports with its witness. A crash that the checked build does not explain is a
      # machinery failure, never a verdict.
      echo "NOTE: the release runner died with signal $((rc-128)); repeating the exploration with the bounds-checked build (index-positions,prohibit-unsafe)"
      build chk cargo build --release --offline --features index-positions,prohibit-unsafe
      "$B/chk/release/mc" "$ID" "$@"; rc2=$?
      if [ $rc2 -eq 1 ]; then exit 1; fi
      echo "MACHINERY: release runner died with signal $((rc-128)) and the bounds-checked runner exited $rc2"; exit 3
    fi
    exit $rc ;;
  C06)
    build rel cargo build --release --offline
    build dbg cargo build --profile dbg --offline
    build chk cargo build --release --offline --features index-positions,prohibit-unsafe
    if [ "${1:-}" = "--replay" ]; then exec "$B/rel/release/mc" C06 "$@"; fi
    # The checked variants run first (they stop cleanly at a broken invariant); the unchecked release
    # build runs as a child too, because there a broken invariant is undefined behaviour and may kill it.
    W=""
    for v in dbg chk rel; do
      rm -f "$B/c06_$v".* "$ROOT/replays/C06/hang.json"
      case $v in dbg) exe="$B/dbg/dbg/mc";; chk) exe="$B/chk/release/mc";; rel) exe="$B/rel/release/mc";; esac
      "$exe" c06-worker "$B/c06_$v"; rc=$?
      if [ $rc -ge 128 ]; then echo "signal $((rc-128))" > "$B/c06_$v.crash";
      elif [ $rc -eq 1 ] && [ -f "$ROOT/replays/C06/hang.json" ]; then exit 1;  # the hang watchdog of the worker reported (and printed) the violation
      elif [ $rc -ne 0 ]; then echo "MACHINERY: C06 worker $v failed with exit $rc"; exit 3; fi
    done
    C06_WORKERS="$B/c06_rel,$B/c06_dbg,$B/c06_chk" exec "$B/rel/release/mc" C06 "$@" ;;
  C15)
    build rel cargo build --release --offline
    build idx cargo build --release --offline --features index-positions
    build pro cargo build --release --offline --features prohibit-unsafe
    build chk cargo build --release --offline --features index-positions,prohibit-unsafe
    build u16 cargo build --release --offline --features utf16
    build nostd cargo build --release --offline --no-default-features --features nostd,pikevm
    if [ "${1:-}" = "--replay" ]; then exec "$B/rel/release/mc" C15 "$@"; fi
    W=""
    for v in rel idx pro chk u16 nostd; do
      rm -f "$B/c15_$v".*
      rm -f "$ROOT/replays/C15/hang.json"
      timeout 600 "$B/$v/release/mc" c15-worker "$B/c15_$v"; rc=$?
      if [ $rc -eq 1 ] && [ -f "$ROOT/replays/C15/hang.json" ]; then exit 1; fi  # hang watchdog of the worker reported the violation
      if [ $rc -ge 128 ] && [ $rc -ne 137 ]; then echo "signal $((rc-128))" > "$B/c15_$v.crash";  # killed by a signal (not by the timeout)
      elif [ $rc -ne 0 ]; then echo "MACHINERY: C15 worker $v failed (exit $rc)"; exit 3; fi
      [ $v != rel ] && W="$W,$B/c15_$v"
    done
    C15_BASELINE="$B/c15_rel" C15_WORKERS="$W" exec "$B/rel/release/mc" C15 "$@" ;;
  C20)
    build pat cargo +nightly build --release --offline --features pattern
    "$B/pat/release/mc" C20 "$@"; rc=$?
    if [ $rc -ge 128 ] && [ "${1:-}" != "--replay" ]; then
      echo "NOTE: the release runner died with signal $((rc-128)); repeating the exploration with the bounds-checked build (pattern,index-positions,prohibit-unsafe)"
      build patchk cargo +nightly build --release --offline --features pattern,index-positions,prohibit-unsafe
      "$B/patchk/release/mc" C20 "$@"; rc2=$?
      if [ $rc2 -eq 1 ]; then exit 1; fi
      echo "MACHINERY: release runner died with signal $((rc-128)) and the bounds-checked runner exited $rc2"; exit 3
    fi
    exit $rc ;;
  C14)
    build u16dbg cargo build --profile dbg --offline --features utf16
    exec "$B/u16dbg/dbg/mc" C14 "$@" ;;
  case)
    build rel cargo build --release --offline
    exec "$B/rel/release/mc" case "$@" ;;
  *)
    echo "MACHINERY: no check registered for $ID"; exit 2 ;;
esac
