//! C19, clause "Regex, Match and Error are Send + Sync": decided by the type checker. This crate compiles
//! exactly when the clause holds; tools/run_check.sh reports a failure to compile it as a violation.
fn assert_send_sync<T: Send + Sync>() {}

pub fn static_assertions() {
    assert_send_sync::<regress::Regex>();
    assert_send_sync::<regress::Match>();
    assert_send_sync::<regress::Error>();
}
