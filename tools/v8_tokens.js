// Writes V8's accept/reject verdict for every token string of length <= N (shortlex order over the
// same alphabet as mc/src/c07.rs TOKENS), for the flag sets "", "u", "v": one byte per string.
'use strict';
const fs = require('fs');
const N = parseInt(process.argv[2] || '4');
const outp = process.argv[3];
const toks = Array.from("()[]{}?*+|^$\\.-,:=!<>&akb10qpudcx8");
const k = toks.length;
let total = 0; for (let l = 0; l <= N; l++) total += Math.pow(k, l);
for (const mode of ['', 'u', 'v']) {
  const buf = Buffer.alloc(total);
  let idx = 0;
  for (let len = 0; len <= N; len++) {
    const cnt = Math.pow(k, len);
    const digits = new Array(len).fill(0);
    for (let j = 0; j < cnt; j++) {
      let s = ''; for (let d = 0; d < len; d++) s += toks[digits[d]];
      let ok = 1; try { new RegExp(s, mode); } catch (e) { ok = 0; }
      buf[idx++] = ok;
      for (let d = len - 1; d >= 0; d--) { if (++digits[d] < k) break; digits[d] = 0; }
    }
  }
  fs.writeFileSync(outp + '_' + (mode || 'legacy') + '.bin', buf);
}
console.log('strings', total);
