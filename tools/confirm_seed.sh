#!/bin/bash
# usage: tools/confirm_seed.sh <seed-src-dir> <seed-id> <property>
# Confirms a seeded change independently in a scratch worktree of /repo and, if all four facts hold,
# stores it as /verif/seeded/<seed-id>/ (patch.diff, demo.rs, README.md, meta.json).
set -u
SRC="$1"; ID="$2"; PROP="$3"
ROOT="$(cd "$(dirname "$0")/.." && pwd)"
WT="/tmp/confirm_$ID"
rm -rf "$WT"; git -C /repo worktree prune
git -C /repo worktree add -q "$WT" HEAD || exit 2
cleanup() { git -C /repo worktree remove --force "$WT" 2>/dev/null; rm -rf "$WT"; }
trap cleanup EXIT
cd "$WT"
head1="$(head -5 "$SRC/demo.rs" | tr '\n' ' ') $(grep -i -m3 'cargo' "$SRC/README.md" | tr '\n' ' ')"
TOOL=""; FEAT=""
echo "$head1" | grep -q '+nightly' && TOOL="+nightly"
FEAT="$(echo "$head1" | grep -o -- '--features[ =][A-Za-z0-9_,-]*' | head -1 | sed 's/--features[ =]//')"
FEAT="${FEAT#,}"; [ -n "${FEAT_OVERRIDE+x}" ] && FEAT="$FEAT_OVERRIDE"; FARG=""; [ -n "$FEAT" ] && FARG="--features $FEAT"
run_demo() { cp "$SRC/demo.rs" tests/seed_demo.rs; timeout 900 cargo $TOOL test --offline $FARG --test seed_demo >"$WT/demo.log" 2>&1; local rc=$?; rm -f tests/seed_demo.rs; return $rc; }
git apply --check "$SRC/patch.diff" || { echo "$ID: patch does not apply"; exit 1; }
run_demo; base_rc=$?
git apply "$SRC/patch.diff"
cargo build --offline >"$WT/build.log" 2>&1; build_rc=$?
timeout 1800 cargo test --workspace --no-fail-fast --offline >"$WT/suite.log" 2>&1; suite_rc=$?
suite_pass=$(grep -c '^test result: ok' "$WT/suite.log"); suite_fail=$(grep -c '^test result: FAILED' "$WT/suite.log")
run_demo; mut_rc=$?
echo "$ID: demo-without-patch rc=$base_rc build rc=$build_rc suite rc=$suite_rc (ok groups $suite_pass, failed groups $suite_fail) demo-with-patch rc=$mut_rc  [demo cmd: cargo $TOOL test --offline $FARG --test seed_demo]"
if [ $base_rc -eq 0 ] && [ $build_rc -eq 0 ] && [ $suite_rc -eq 0 ] && [ $suite_fail -eq 0 ] && [ $mut_rc -ne 0 ]; then
  D="$ROOT/seeded/$ID"; mkdir -p "$D"
  cp "$SRC/patch.diff" "$SRC/demo.rs" "$D/"; cp "$SRC/README.md" "$D/README.md" 2>/dev/null
  python3 - "$D" "$PROP" "$ID" "cargo $TOOL test --offline $FARG --test seed_demo" <<'PY'
import json,sys,re
d,prop,sid,cmd=sys.argv[1:5]
readme=open(d+'/README.md').read() if True else ''
needs=''
m=re.search(r'(?is)(needs?[^\n]*manifest[^\n]*\n(?:.*\n){0,8})', readme)
if m: needs=' '.join(m.group(1).split())[:600]
json.dump({"id":sid,"property":prop,"written_by":"independent sub-agent given only the property text and a scratch worktree",
 "needs_to_manifest":needs or "see README.md",
 "confirmed":{"patch_applies":True,"builds":True,"repo_suite_passes_with_patch":True,"demo_fails_with_patch":True,"demo_passes_without_patch":True,
   "how":"tools/confirm_seed.sh in a scratch worktree of /repo HEAD: cargo build --offline; cargo test --workspace --no-fail-fast --offline; demo copied to tests/seed_demo.rs and run with: "+cmd}},
 open(d+'/meta.json','w'),indent=1)
PY
  echo "$ID: CONFIRMED and stored"
  exit 0
fi
echo "$ID: NOT confirmed"; tail -5 "$WT/demo.log"
exit 1
