#!/bin/bash
# Warm every build variant the checks use (each check rebuilds incrementally by itself).
set -u
ROOT="$VERIF_ROOT"
B="$ROOT/.build"; mkdir -p "$B"
fail=0
b() { local v="$1"; shift; ( cd "$ROOT/mc" && CARGO_TARGET_DIR="$B/$v" "$@" ) >"$B/build_$v.log" 2>&1 || { echo "build of $v failed:"; tail -n 20 "$B/build_$v.log"; fail=1; }; }
b rel cargo build --release --offline
b dbg cargo build --profile dbg --offline
b chk cargo build --release --offline --features index-positions,prohibit-unsafe
b idx cargo build --release --offline --features index-positions
b pro cargo build --release --offline --features prohibit-unsafe
b u16 cargo build --release --offline --features utf16
b u16dbg cargo build --profile dbg --offline --features utf16
b nostd cargo build --release --offline --no-default-features --features nostd,pikevm
b pat cargo +nightly build --release --offline --features pattern
( cd "$ROOT/tools/sendsync" && CARGO_TARGET_DIR="$B/ss" cargo check --offline ) >"$B/build_ss.log" 2>&1 || { echo "build of the static-assertion crate failed:"; tail -n 20 "$B/build_ss.log"; fail=1; }
exit $fail
