#!/bin/bash
set -u
ROOT="$VERIF_ROOT"
B="$ROOT/.build"; mkdir -p "$B"
fail=0
( cd "$ROOT/mc" && CARGO_TARGET_DIR="$B/rel" cargo build --release --offline ) || fail=1
exit $fail
