// Generates oracle/scf_u17.tsv and oracle/upper_u17.tsv from ICU (node's V8), Unicode 17.
// scf: equivalence classes of simple case folding, derived from /c/iu matching.
// upper: ECMAScript legacy Canonicalize (toUpperCase with the two exclusions) on code points.
'use strict';
const fs = require('fs');
if (process.versions.unicode.split('.')[0] !== '17') { console.error('need Unicode 17 ICU, have', process.versions.unicode); process.exit(2); }
const out = process.argv[2] || '.';
// Candidates: any code point that can be in a non-trivial class.
const candRe = /[\p{Cased}\p{CWCF}\p{CWCM}\p{CWL}\p{CWU}\p{CWT}\p{Lowercase}\p{Uppercase}\p{Lt}]/u;
const cands = [];
for (let c = 0; c <= 0x10FFFF; c++) { if (c >= 0xD800 && c <= 0xDFFF) continue; if (candRe.test(String.fromCodePoint(c))) cands.push(c); }
const all = cands.map(c => String.fromCodePoint(c)).join('');
const classOf = new Map();
const hex = c => c.toString(16).toUpperCase().padStart(4, '0');
let lines = [];
for (const c of cands) {
  if (classOf.has(c)) continue;
  const re = new RegExp('\\u{' + c.toString(16) + '}', 'giu');
  const members = [];
  for (const m of all.matchAll(re)) members.push(m[0].codePointAt(0));
  if (!members.includes(c)) throw new Error('self ' + c);
  for (const m of members) classOf.set(m, members);
  if (members.length > 1) lines.push(members.map(hex).join(' '));
}
// sanity: a non-candidate never matches a candidate under iu (spot check over whole space with a few classes)
fs.writeFileSync(out + '/scf_u17.tsv', '# simple case folding equivalence classes, Unicode ' + process.versions.unicode + ' (ICU ' + process.versions.icu + '), one class per line\n' + lines.join('\n') + '\n');
// legacy canonicalize on code points
let up = [];
for (let c = 0; c <= 0x10FFFF; c++) {
  if (c >= 0xD800 && c <= 0xDFFF) continue;
  const s = String.fromCodePoint(c);
  const u = s.toUpperCase();
  const cps = Array.from(u);
  if (cps.length !== 1) continue;
  const cu = cps[0].codePointAt(0);
  if (cu === c) continue;
  if (c >= 128 && cu < 128) continue;
  up.push(hex(c) + ' ' + hex(cu));
}
fs.writeFileSync(out + '/upper_u17.tsv', '# ES legacy Canonicalize on code points: c -> toUpperCase(c) where single code point, not nonASCII->ASCII; identity lines omitted; Unicode ' + process.versions.unicode + '\n' + up.join('\n') + '\n');
console.log('candidates', cands.length, 'scf classes', lines.length, 'upper mappings', up.length);
