// Oracle self-check: replays cases dumped by `mc dump-cases` through V8 and compares the first match
// from every lastIndex (range and capture indices) with the reference matcher's verdict.
'use strict';
const fs = require('fs'), readline = require('readline');
const file = process.argv[2];
let lines = 0, cases = 0, bad = 0, skipped = 0, midpair = 0, oldiv = 0;
const inPair = (h, i) => i > 0 && i < h.length && (h.charCodeAt(i - 1) & 0xFC00) === 0xD800 && (h.charCodeAt(i) & 0xFC00) === 0xDC00;
const rl = readline.createInterface({ input: fs.createReadStream(file), crlfDelay: Infinity });
rl.on('line', (line) => {
  if (!line) return;
  lines++;
  const c = JSON.parse(line);
  // V8 11.3 applies && and -- to the unfolded operand sets under iv (e.g. /[\\w--a]/iv matches 'a', /[k&&K]/iv
  // does not match 'k'), predating the final MaybeSimpleCaseFolding text of ES2024; such patterns are not compared.
  if (c.f.includes('i') && c.f.includes('v') && (c.p.includes('--') || c.p.includes('&&'))) { oldiv++; return; }
  let re;
  try { re = new RegExp(c.p, c.f + 'gd'); } catch (e) { skipped++; if (skipped <= 5) console.log('V8 rejects', JSON.stringify(c.p), c.f, String(e)); return; }
  for (const r of c.r) {
    cases++;
    re.lastIndex = r[0];
    const m = re.exec(c.h);
    let got;
    if (m === null) got = [r[0], null];
    else got = [r[0], [m.indices[0][0], m.indices[0][1]], m.indices.slice(1).map(x => x === undefined ? null : [x[0], x[1]])];
    if (JSON.stringify(got) !== JSON.stringify(r)) {
      // V8 quirk, not ES: in u/v mode its scan loop can start a zero-width match between the two halves of a
      // surrogate pair (the specification advances by code point). Such offsets do not exist in UTF-8 input.
      if (m !== null && (inPair(c.h, m.indices[0][0]) || m.indices.some(x => x && (inPair(c.h, x[0]) || inPair(c.h, x[1]))))) { midpair++; continue; }
      bad++;
      if (bad <= 25) console.log('DISAGREE /' + c.p + '/' + c.f, JSON.stringify(c.h), 'model', JSON.stringify(r), 'v8', JSON.stringify(got));
    }
  }
});
rl.on('close', () => {
  console.log(`v8_crosscheck: ${lines} lines, ${cases} cases, ${skipped} patterns V8 rejects, ${midpair} V8 mid-surrogate-pair quirks ignored, ${oldiv} iv set-operation lines not compared (old V8 semantics), ${bad} disagreements`);
  process.exit(bad > 0 ? 1 : 0);
});
