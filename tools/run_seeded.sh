#!/bin/bash
# Applies every seeded change to /repo in turn, runs the quick check of the property it breaks (plus any
# extra checks named on the command line or in meta.json "also"), records the verdicts, and undoes the change.
# usage: tools/run_seeded.sh [seed-id ...]      (default: all under seeded/)
set -u
ROOT="$(cd "$(dirname "$0")/.." && pwd)"
cd "$ROOT"
if ! git -C /repo diff --quiet; then echo "refusing: /repo has uncommitted changes"; exit 2; fi
ids=("$@"); if [ ${#ids[@]} -eq 0 ]; then ids=($(ls seeded | grep -v RESULTS)); fi
out="seeded/RESULTS.md"
tmp="$(mktemp)"
for id in "${ids[@]}"; do
  d="seeded/$id"; [ -f "$d/patch.diff" ] || continue
  prop=$(python3 -c "import json;print(json.load(open('$d/meta.json'))['property'])")
  also=$(python3 -c "import json;print(' '.join(json.load(open('$d/meta.json')).get('also',[])))")
  if ! git -C /repo apply --check "$ROOT/$d/patch.diff" 2>/dev/null; then echo "| $id | $prop | patch does not apply | |" >> "$tmp"; continue; fi
  git -C /repo apply "$ROOT/$d/patch.diff"
  row="| $id | $prop |"
  res=""
  for c in $prop $also; do
    log=".build/seeded_${id}_$c.log"
    ./check $c quick > "$log" 2>&1; rc=$?
    n=$(grep -c '^VIOLATION' "$log")
    case $rc in 0) v="quiet";; 1) v="**VIOLATION** ($n clusters)";; *) v="machinery exit $rc";; esac
    res="$res $c: $v;"
  done
  first=$(grep -h -A1 '^VIOLATION' .build/seeded_${id}_$prop.log 2>/dev/null | grep 'cluster=' | head -1 | cut -c1-160 | sed 's/|/\\|/g')
  echo "$row $res | $first |" >> "$tmp"
  git -C /repo checkout -- .
  git -C /repo status --short | grep -q . && { echo "WARNING: /repo not clean after $id"; git -C /repo status --short; }
done
{
  echo "# Seeded changes vs. checks"
  echo
  echo "Each seeded change is applied to /repo, the quick check of the property it breaks is run, and the change is undone."
  echo
  echo "| seed | property | verdicts | first cluster |"
  echo "|---|---|---|---|"
  if [ -f "$out" ] && [ ${#@} -gt 0 ]; then grep '^| ' "$out" | grep -v '^| seed' | grep -v '^|---' | while read -r l; do sid=$(echo "$l" | cut -d'|' -f2 | tr -d ' '); keep=1; for id in "${ids[@]}"; do [ "$sid" = "$id" ] && keep=0; done; [ $keep = 1 ] && echo "$l"; done; fi
  cat "$tmp"
} > "$out.new"
mv "$out.new" "$out"; rm -f "$tmp"
cat "$out"
