// Generates the Unicode property oracle from ICU (node's V8): which \p{...} expressions ES accepts
// (V8 is the judge) and the exact set of code points each denotes (Unicode 17), surrogates included.
'use strict';
const fs = require('fs');
if (process.versions.unicode.split('.')[0] !== '17') { console.error('need Unicode 17'); process.exit(2); }
const out = process.argv[2] || 'oracle';
const lines = fs.readFileSync(out + '/src/perl_ucd14_aliases.txt', 'utf8').split('\n').filter(Boolean);
const propNames = new Set(), valueNames = new Set();
for (const l of lines) {
  const f = l.split('\t');
  if (f[0] === 'P') f[1].split(' ').forEach(n => propNames.add(n));
  if (f[0] === 'V') f[2].split(' ').forEach(n => valueNames.add(n));
}
const regressNames = fs.readFileSync(out + '/src/regress_names_at_generation.txt', 'utf8').split('\n').filter(Boolean);
const addendum = ['Kawi','Nag_Mundari','Nagm','Garay','Gara','Gurung_Khema','Gukh','Kirat_Rai','Krai','Ol_Onal','Onao','Sunuwar','Sunu','Todhri','Todr','Tulu_Tigalari','Tutg','Sidetic','Sidt','Tai_Yo','Tayo','Tolong_Siki','Tols','Beria_Erfe','Berf','Any','ASCII','Assigned','Emoji','Emoji_Presentation','Emoji_Modifier','Emoji_Modifier_Base','Emoji_Component','Extended_Pictographic','EPres','EMod','EBase','EComp','ExtPict','Basic_Emoji','Emoji_Keycap_Sequence','RGI_Emoji_Modifier_Sequence','RGI_Emoji_Flag_Sequence','RGI_Emoji_Tag_Sequence','RGI_Emoji_ZWJ_Sequence','RGI_Emoji','punct','Combining_Mark','digit','cntrl','LC','Cased_Letter','IDS_Unary_Operator','IDSU','ID_Compat_Math_Start','ID_Compat_Math_Continue','InCB','Modifier_Combining_Mark','MCM'];
const base = new Set([...propNames, ...valueNames, ...regressNames, ...addendum]);
// variants that ES must reject (no loose matching)
const variants = new Set();
for (const n of base) {
  variants.add(n);
  if (n.length <= 40) { variants.add(n.toLowerCase()); variants.add(n.toUpperCase()); variants.add(n.replace(/_/g, '')); variants.add(n.replace(/_/g, ' ')); variants.add(n.replace(/_/g, '-')); variants.add(' ' + n); variants.add(n + '_'); }
}
const exprs = new Set();
const propPrefixes = ['General_Category', 'gc', 'Script', 'sc', 'Script_Extensions', 'scx'];
const badPrefixes = ['Gc', 'GC', 'script', 'Scx', 'Block', 'blk', 'Age', 'Any', 'Alphabetic', 'category', 'General_Category_Mask', 'gcm', 'Script_extensions', 'sce'];
for (const n of variants) exprs.add(n);
for (const n of base) {
  for (const p of propPrefixes) exprs.add(p + '=' + n);
  for (const p of badPrefixes) exprs.add(p + '=' + n);
}
for (const n of ['Lu', 'Latin', 'Latn', 'L']) { for (const p of propPrefixes) { exprs.add(p + '=' + n.toLowerCase()); exprs.add(p + '=' + n.toUpperCase()); exprs.add(p + '==' + n); exprs.add(p + '=' + n + '='); exprs.add(p + ' = ' + n); } }
for (const p of propPrefixes) { exprs.add(p); exprs.add(p + '='); exprs.add('=' + p); }
exprs.add(''); exprs.add('='); exprs.add('Lu|Ll'); exprs.add('^Lu'); exprs.add('L&'); exprs.add('Alphabetic=Yes'); exprs.add('Alphabetic=true'); exprs.add('Alpha=Y');
// only identifier-ish expressions can be written in a pattern at all; keep others as rejects too
const all = [];
for (let c = 0; c <= 0x10FFFF; c++) { if (c >= 0xD800 && c <= 0xDFFF) continue; all.push(c); }
const allStr = all.map(c => String.fromCodePoint(c)).join('');
function setOf(expr, neg) {
  const src = (neg ? '\\P{' : '\\p{') + expr + '}';
  let re1; try { re1 = new RegExp(src + '+', 'gu'); } catch (e) { return null; }
  const iv = [];
  for (const m of allStr.matchAll(re1)) {
    const first = m[0].codePointAt(0);
    // last code point of the run
    let last; { const s = m[0]; const cu = s.charCodeAt(s.length - 1); last = (cu >= 0xDC00 && cu <= 0xDFFF && s.length >= 2) ? s.codePointAt(s.length - 2) : cu; }
    if (first <= 0xD7FF && last >= 0xE000) { iv.push([first, 0xD7FF]); iv.push([0xE000, last]); } else iv.push([first, last]);
  }
  // surrogates (lone)
  const re2 = new RegExp('^' + src + '$', 'u');
  let runStart = -1;
  for (let c = 0xD800; c <= 0xE000; c++) {
    const inSet = c <= 0xDFFF && re2.test(String.fromCharCode(c));
    if (inSet && runStart < 0) runStart = c;
    if (!inSet && runStart >= 0) { iv.push([runStart, c - 1]); runStart = -1; }
  }
  iv.sort((a, b) => a[0] - b[0]);
  // merge adjacent
  const mg = [];
  for (const r of iv) { if (mg.length && mg[mg.length - 1][1] + 1 >= r[0]) mg[mg.length - 1][1] = Math.max(mg[mg.length - 1][1], r[1]); else mg.push([r[0], r[1]]); }
  return mg;
}
const hex = c => c.toString(16).toUpperCase();
const setIds = new Map(); const setLines = []; const nameLines = []; const rejects = [];
let acc = 0;
// V8 accepts every ICU alias; ES2025 table 68 lists only 'White_Space | space', so 'WSpace' is not ES.
const V8_LENIENT = new Set(['WSpace']);
for (const e of [...exprs].sort()) {
  if (V8_LENIENT.has(e)) { rejects.push(e); continue; }
  // expressions containing characters the pattern grammar cannot carry are rejects by construction
  const iv = /^[A-Za-z0-9_=]*$/.test(e) ? setOf(e, false) : null;
  if (iv === null) { rejects.push(e); continue; }
  acc++;
  const key = iv.map(r => r[0] === r[1] ? hex(r[0]) : hex(r[0]) + '-' + hex(r[1])).join(' ');
  if (!setIds.has(key)) { setIds.set(key, setIds.size + 1); setLines.push('S' + setIds.get(key) + '\t' + key); }
  nameLines.push(e + '\t@S' + setIds.get(key));
  // \P must be the exact complement (checked here once so the Rust side can rely on it)
  const niv = setOf(e, true);
  let covered = 0; for (const r of iv) covered += r[1] - r[0] + 1; for (const r of niv) covered += r[1] - r[0] + 1;
  if (covered !== 0x110000) throw new Error('complement mismatch for ' + e);
}
const hdr = '# Unicode ' + process.versions.unicode + ', ICU ' + process.versions.icu + ', V8 ' + process.versions.v8 + '\n';
fs.writeFileSync(out + '/props_sets_u17.tsv', hdr + setLines.join('\n') + '\n');
fs.writeFileSync(out + '/props_names_u17.tsv', hdr + nameLines.join('\n') + '\n');
fs.writeFileSync(out + '/props_rejected_u17.txt', hdr + rejects.map(r => JSON.stringify(r)).join('\n') + '\n');
console.log('expressions', exprs.size, 'accepted', acc, 'distinct sets', setIds.size, 'rejected', rejects.length);
