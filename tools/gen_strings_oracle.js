// Oracle for the properties of strings (v flag): membership of a large candidate universe, judged by
// V8/ICU (Unicode 17 / Emoji 17). Output: oracle/strings_u17.tsv (accepted strings per property) and
// oracle/strings_universe_u17.txt (every candidate that was judged).
'use strict';
const fs = require('fs');
if (process.versions.unicode.split('.')[0] !== '17') { console.error('need Unicode 17'); process.exit(2); }
const out = process.argv[2] || 'oracle';
const props = ['Basic_Emoji', 'Emoji_Keycap_Sequence', 'RGI_Emoji_Flag_Sequence', 'RGI_Emoji_Modifier_Sequence', 'RGI_Emoji_Tag_Sequence', 'RGI_Emoji_ZWJ_Sequence', 'RGI_Emoji'];
const res = {}; for (const p of props) res[p] = new RegExp('^\\p{' + p + '}$', 'v');
const key = a => a.map(c => c.toString(16).toUpperCase()).join('+');
const universe = new Map();
const add = a => { if (a.length === 0 || a.length > 12) return; const k = key(a); if (!universe.has(k)) universe.set(k, a); };
const cpsOf = re => { const v = []; for (let c = 0; c <= 0x10FFFF; c++) { if (c >= 0xD800 && c <= 0xDFFF) continue; if (re.test(String.fromCodePoint(c))) v.push(c); } return v; };
const emoji = cpsOf(/^[\p{Emoji}\p{Extended_Pictographic}\p{Emoji_Component}]$/u);
const ebase = cpsOf(/^\p{Emoji_Modifier_Base}$/u);
const emod = cpsOf(/^\p{Emoji_Modifier}$/u);
const ri = cpsOf(/^\p{Regional_Indicator}$/u);
const ZWJ = 0x200D, VS16 = 0xFE0F, VS15 = 0xFE0E, KEY = 0x20E3;
// seeds from regress (as of oracle generation)
const seeds = [];
for (const l of fs.readFileSync(out + '/src/regress_strings_at_generation.txt', 'utf8').split('\n').filter(Boolean)) {
  const [, rest] = l.split('\t');
  for (const s of rest.split(' ').filter(Boolean)) seeds.push(s.split('+').map(h => parseInt(h, 16)));
}
for (const s of seeds) {
  add(s);
  for (let i = 0; i < s.length; i++) {
    add(s.filter((_, j) => j !== i));                       // delete
    for (const d of [-1, 1]) { const t = s.slice(); t[i] += d; if (t[i] >= 0 && !(t[i] >= 0xD800 && t[i] <= 0xDFFF) && t[i] <= 0x10FFFF) add(t); }
    const ins = s.slice(); ins.splice(i + 1, 0, VS16); add(ins);
    const dup = s.slice(); dup.splice(i + 1, 0, s[i]); add(dup);
  }
  // prefixes at ZWJ boundaries
  for (let i = 0; i < s.length; i++) if (s[i] === ZWJ) { add(s.slice(0, i)); add(s.slice(0, i + 1)); }
}
for (const c of emoji) { add([c]); add([c, VS16]); add([c, VS15]); add([c, KEY]); add([c, VS16, KEY]); for (const m of emod) add([c, m]); }
for (let c = 0x20; c < 0x80; c++) { add([c]); add([c, VS16]); add([c, VS16, KEY]); add([c, KEY]); }
for (const a of ri) for (const b of ri) add([a, b]);
for (const a of ri) add([a]);
// two-element ZWJ structures
const lefts = []; for (const x of emoji) { lefts.push([x]); lefts.push([x, VS16]); } for (const x of ebase) for (const m of emod) lefts.push([x, m]);
const test = (p, a) => res[p].test(String.fromCodePoint(...a));
let zwjAccepted = [];
{
  const re = res['RGI_Emoji_ZWJ_Sequence'];
  for (const l of lefts) for (const y of emoji) for (const tail of [[y], [y, VS16]]) {
    const a = [...l, ZWJ, ...tail];
    if (re.test(String.fromCodePoint(...a))) { add(a); zwjAccepted.push(a); }
  }
}
// closure: extend accepted / seed prefixes by one more "ZWJ element"
let frontier = zwjAccepted.concat(seeds.filter(s => s.includes(ZWJ)));
const seenExt = new Set();
for (let round = 0; round < 3; round++) {
  const next = [];
  const bases = new Map();
  for (const s of frontier) { bases.set(key(s), s); for (let i = 0; i < s.length; i++) if (s[i] === ZWJ) bases.set(key(s.slice(0, i)), s.slice(0, i)); }
  for (const [k, b] of bases) {
    if (seenExt.has(k) || b.length > 8) continue; seenExt.add(k);
    for (const y of emoji) for (const tail of [[y], [y, VS16]].concat(ebase.includes(y) ? emod.map(m => [y, m]) : [])) {
      const a = [...b, ZWJ, ...tail];
      if (res['RGI_Emoji_ZWJ_Sequence'].test(String.fromCodePoint(...a))) { if (!universe.has(key(a))) next.push(a); add(a); }
    }
  }
  frontier = next; if (!next.length) break;
}
// judge the universe
const accepted = {}; for (const p of props) accepted[p] = [];
for (const [k, a] of universe) { const s = String.fromCodePoint(...a); for (const p of props) if (res[p].test(s)) accepted[p].push(k); }
const hdr = '# Unicode ' + process.versions.unicode + ', ICU ' + process.versions.icu + '\n';
fs.writeFileSync(out + '/strings_u17.tsv', hdr + props.map(p => p + '\t' + accepted[p].join(' ')).join('\n') + '\n');
fs.writeFileSync(out + '/strings_universe_u17.txt', hdr + [...universe.keys()].join('\n') + '\n');
console.log('universe', universe.size, props.map(p => p + '=' + accepted[p].length).join(' '));
