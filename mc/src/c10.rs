//! C10: case-insensitive matching = simple case folding (u/v) or legacy upper-casing, over the
//! complete code space.
use crate::ast::*;
use crate::fold;
use crate::json::J;
use crate::print;
use crate::refmatch::is_basic_word;
use crate::report::{Run, Stats};
use crate::subject::{self, CompileOutcome, Outcome};
use rayon::prelude::*;
use std::collections::BTreeSet;

const MAXCP: u32 = 0x10FFFF;

fn is_surrogate(c: u32) -> bool {
    (0xD800..=0xDFFF).contains(&c)
}

fn mode_name(unicode: bool) -> &'static str {
    if unicode {
        "unicode"
    } else {
        "legacy"
    }
}

fn hexs(v: &[u32]) -> J {
    J::Arr(v.iter().map(|c| J::s(&format!("U+{:04X}", c))).collect())
}

fn block(c: u32) -> String {
    format!("U+{:04X}..", c & !0xFF)
}

fn case(mode: &str, cp: u32, what: &str, expected: J, got: J) -> J {
    J::obj().set("kind", J::s("fold")).set("mode", J::s(mode)).set("cp", J::u(cp as u64)).set("cp_hex", J::s(&format!("U+{:04X}", cp))).set("what", J::s(what)).set("expected", expected).set("got", got)
}

/// Candidate set K: every member of a non-trivial class in the oracle or in the implementation
/// (either mode), their neighbours, the UTF-8 length boundaries and all of ASCII.
#[cfg(feature = "hooks")]
fn candidate_set() -> Vec<u32> {
    let mut k: BTreeSet<u32> = BTreeSet::new();
    let t = fold::tables();
    for &c in t.scf.keys().chain(t.upper.keys()) {
        k.insert(c);
    }
    for c in 0..=MAXCP {
        if regress::verif::fold_code_point(c, true) != c || regress::verif::fold_code_point(c, false) != c {
            k.insert(c);
            k.insert(regress::verif::fold_code_point(c, true));
            k.insert(regress::verif::fold_code_point(c, false));
        }
    }
    let base: Vec<u32> = k.iter().copied().collect();
    for c in base {
        if c > 0 {
            k.insert(c - 1);
        }
        if c < MAXCP {
            k.insert(c + 1);
        }
    }
    for c in 0..128 {
        k.insert(c);
    }
    for c in [0x7F, 0x80, 0x7FF, 0x800, 0xFFFF, 0x10000, 0x10FFFF, 0xD7FF, 0xE000, 0x2028, 0x2029] {
        k.insert(c);
    }
    k.into_iter().filter(|c| !is_surrogate(*c)).collect()
}

#[cfg(feature = "hooks")]
fn hook_level(run: &Run, st: &mut Stats) {
    use regress::verif;
    let known = &run.known;
    for unicode in [true, false] {
        let mode = mode_name(unicode);
        // A. partition induced by Canonicalize over the complete code space
        let f: Vec<u32> = (0..=MAXCP).map(|c| verif::fold_code_point(c, unicode)).collect();
        let mut minrep: Vec<u32> = vec![u32::MAX; (MAXCP + 1) as usize];
        for c in 0..=MAXCP {
            let t = f[c as usize] as usize;
            if t > MAXCP as usize {
                st.violation(known, "C10", &format!("Canonicalize out of range ({})", mode), 1, case(mode, c, "Canonicalize returns a value above U+10FFFF", J::Null, J::u(t as u64)));
                continue;
            }
            if c < minrep[t] {
                minrep[t] = c;
            }
        }
        for c in 0..=MAXCP {
            st.add("evaluations", 1);
            st.add("validated", 1);
            let t = f[c as usize];
            if t > MAXCP {
                continue;
            }
            let impl_rep = minrep[t as usize];
            let or_rep = fold::rep(c, unicode);
            if or_rep != c {
                st.add("nontrivial", 1);
            }
            if impl_rep != or_rep {
                let impl_class: Vec<u32> = (0..=MAXCP).filter(|&d| f[d as usize] == t).collect();
                st.violation(
                    known,
                    "C10",
                    &format!("Canonicalize partition differs ({}) {}", mode, block(c)),
                    2,
                    case(mode, c, "the class of code points with the same canonical form differs from the oracle", hexs(&fold::class_of(c, unicode)), hexs(&impl_class)),
                );
            }
        }
        // B. compile-time expansion of a literal
        let bad: Vec<(u32, Vec<u32>)> = (0..=MAXCP)
            .into_par_iter()
            .filter_map(|c| {
                let got = if unicode { verif::unfold_char(c) } else { verif::unfold_uppercase_char(c) };
                let exp = fold::class_of(c, unicode);
                if got != exp {
                    Some((c, got))
                } else {
                    None
                }
            })
            .collect();
        st.add("evaluations", MAXCP as u64 + 1);
        st.add("validated", MAXCP as u64 + 1);
        for (c, got) in bad {
            st.violation(known, "C10", &format!("literal expansion differs ({}) {}", mode, block(c)), 2, case(mode, c, "compile-time expansion of a literal differs from the oracle class", hexs(&fold::class_of(c, unicode)), hexs(&got)));
        }
        // C. closure of classes: singletons of K, small windows around K, 256-blocks, big spans
        let k = candidate_set();
        let mut intervals: Vec<(u32, u32)> = Vec::new();
        for &c in &k {
            intervals.push((c, c));
            intervals.push((c.saturating_sub(1), (c + 1).min(MAXCP)));
            intervals.push((c, (c + 15).min(MAXCP)));
        }
        for b in 0..=(MAXCP >> 8) {
            intervals.push((b << 8, (b << 8) | 0xFF));
        }
        for iv in [(0, MAXCP), (0x80, 0x7FF), (0x800, 0xFFFF), (0x10000, MAXCP), (0x41, 0x5A), (0x61, 0x7A), (0, 0x7F), (0x370, 0x3FF), (0x1F00, 0x1FFF), (0x2100, 0x24FF)] {
            intervals.push(iv);
        }
        intervals.sort();
        intervals.dedup();
        let known2 = known.clone();
        let s2 = intervals
            .par_iter()
            .fold(Stats::default, |mut st, &(a, b)| {
                st.add("evaluations", 1);
                st.add("validated", 1);
                let got = verif::icase_closure(&[(a, b)], unicode);
                // expected: union of oracle classes of the members
                let mut exp: BTreeSet<u32> = BTreeSet::new();
                if b - a > 0x2000 {
                    // big span: everything in it plus classes of the candidates inside
                    let t = fold::tables();
                    let m = if unicode { &t.scf } else { &t.upper };
                    for (c, cls) in m.iter() {
                        if *c >= a && *c <= b {
                            for &d in cls {
                                if d < a || d > b {
                                    exp.insert(d);
                                }
                            }
                        }
                    }
                    // compare as: got == [a,b] ∪ exp
                    let mut gotset: BTreeSet<u32> = BTreeSet::new();
                    let mut covers = true;
                    let mut inside = 0u64;
                    for &(x, y) in &got {
                        // count coverage of [a,b]
                        let lo = x.max(a);
                        let hi = y.min(b);
                        if lo <= hi {
                            inside += (hi - lo + 1) as u64;
                        }
                        for d in x..=y {
                            if d < a || d > b {
                                gotset.insert(d);
                            }
                        }
                    }
                    if inside != (b - a + 1) as u64 {
                        covers = false;
                    }
                    if !covers || gotset != exp {
                        st.violation(&known2, "C10", &format!("class closure differs ({}) span", mode), 3, case(mode, a, &format!("closure of [U+{:04X}-U+{:04X}] differs from the union of oracle classes", a, b), hexs(&exp.iter().copied().collect::<Vec<_>>()), hexs(&gotset.iter().copied().collect::<Vec<_>>())));
                    }
                } else {
                    for c in a..=b {
                        for d in fold::class_of(c, unicode) {
                            exp.insert(d);
                        }
                    }
                    let mut gotset: BTreeSet<u32> = BTreeSet::new();
                    for &(x, y) in &got {
                        for d in x..=y {
                            gotset.insert(d);
                        }
                    }
                    if gotset != exp {
                        let e: Vec<u32> = exp.symmetric_difference(&gotset).copied().collect();
                        st.violation(&known2, "C10", &format!("class closure differs ({}) {}", mode, block(e[0])), 3, case(mode, e[0], &format!("closure of [U+{:04X}-U+{:04X}] differs from the union of oracle classes (symmetric difference shown)", a, b), J::Arr(vec![]), hexs(&e)));
                    }
                }
                st
            })
            .reduce(Stats::default, Stats::merge);
        *st = std::mem::take(st).merge(s2);
    }
}

fn pat_for(n: &Node) -> Vec<u32> {
    print::print(n)
}

fn compile_or_report(pat: &[u32], fl: Flags, st: &mut Stats, run: &Run, cp: u32) -> Option<regress::Regex> {
    match subject::compile(pat, fl, false) {
        CompileOutcome::Ok(r) => Some(r),
        other => {
            st.violation(&run.known, "C10", "pattern does not compile", 1, case(&fl.to_string(), cp, "a single-character pattern does not compile", J::s("Ok"), J::s(&format!("{:?}", other))));
            None
        }
    }
}

/// API level: /c/, /[c]/, /[^c]/ over a haystack holding every code point of `hay_cps` once.
fn api_level(run: &Run, subjects: &[u32], hay_cps: &[u32], kinds: &[&str], flag_sets: &[&str], label: &str) -> Stats {
    let mut text = String::with_capacity(hay_cps.len() * 4);
    let mut offs: Vec<usize> = Vec::with_capacity(hay_cps.len());
    for &c in hay_cps {
        offs.push(text.len());
        text.push(char::from_u32(c).unwrap());
    }
    let in_hay: BTreeSet<u32> = hay_cps.iter().copied().collect();
    let text = &text;
    subjects
        .par_iter()
        .fold(Stats::default, |mut st, &c| {
            for fs in flag_sets {
                let fl = Flags::parse(fs);
                let um = fl.unicode_mode();
                let cls: Vec<u32> = fold::class_of(c, um).into_iter().filter(|d| in_hay.contains(d)).collect();
                for kind in kinds {
                    let node = match *kind {
                        "literal" => Node::Char(c),
                        "class" => Node::Class { negated: false, items: vec![ClassItem::Single(c)] },
                        "negclass" => Node::Class { negated: true, items: vec![ClassItem::Single(c)] },
                        _ => unreachable!(),
                    };
                    let node = if fl.v && *kind != "literal" {
                        Node::VClass(VClass { negated: *kind == "negclass", op: VOp::Union, operands: vec![VOperand::Char(c)] })
                    } else {
                        node
                    };
                    let pat = pat_for(&node);
                    let Some(re_with) = compile_or_report(&pat, fl, &mut st, run, c) else { continue };
                    // the same program without its start predicate: what the matcher itself accepts (a prefilter
                    // computed from the right set can hide a wrong member of the emitted set, and vice versa)
                    let re_without = if hay_cps.len() <= 20_000 {
                        match subject::compile_without_prefilter(&pat, fl, false) {
                            CompileOutcome::Ok(r) => Some(r),
                            _ => None,
                        }
                    } else {
                        None
                    };
                    for (re, pf) in [(Some(&re_with), "with its start predicate"), (re_without.as_ref(), "without start predicate")] {
                    let Some(re) = re else { continue };
                    st.add("evaluations", 1);
                    if cls.len() > 1 {
                        st.add("nontrivial", 1);
                    }
                    let got = subject::guarded(u64::MAX, || {
                        let mut v: Vec<u32> = Vec::new();
                        for m in re.find_iter(text) {
                            let ch = text[m.range()].chars().next().map(|x| x as u32).unwrap_or(0xFFFF_FFFF);
                            if m.range.len() != char::from_u32(ch).map(|x| x.len_utf8()).unwrap_or(0) {
                                v.push(0xFFFF_FFFF);
                            }
                            v.push(ch);
                        }
                        v
                    });
                    st.add("validated", 1);
                    match got {
                        Outcome::Ok(mut g) => {
                            g.sort_unstable();
                            let exp: Vec<u32> = if *kind == "negclass" { hay_cps.iter().copied().filter(|d| !cls.contains(d)).collect::<BTreeSet<u32>>().into_iter().collect() } else { cls.clone() };
                            if g != exp {
                                let (e, gg): (Vec<u32>, Vec<u32>) = if *kind == "negclass" {
                                    // show the complement side only
                                    let gs: BTreeSet<u32> = g.iter().copied().collect();
                                    (cls.clone(), hay_cps.iter().copied().filter(|d| !gs.contains(d)).collect())
                                } else {
                                    (exp.clone(), g.clone())
                                };
                                st.violation(
                                    &run.known,
                                    "C10",
                                    &format!("{} under {} matches a different set {} [{}, {}]", kind, if fs.is_empty() { "-" } else { fs }, block(c), label, pf),
                                    4,
                                    case(fs, c, &format!("/{}/{} matches a different set of code points than the oracle class{}", print::show(&pat), fs, if *kind == "negclass" { " (complements shown)" } else { "" }), hexs(&e), hexs(&gg)).set("pattern", J::s(&print::show(&pat))).set("flags", J::s(fs)),
                                );
                            } else if cls.len() > 1 {
                                st.sample(|| J::obj().set("pattern", J::s(&print::show(&pat))).set("flags", J::s(fs)).set("matches_exactly", hexs(&g[..g.len().min(24)])).set("matched_code_points", J::u(g.len() as u64)).set("haystack", J::s(label)));
                            }
                        }
                        Outcome::Panic(m) => st.violation(&run.known, "C10", "panic", 1, case(fs, c, "panic while matching", J::Null, J::s(&m))),
                        Outcome::Fuel => {}
                    }
                    }
                }
            }
            st
        })
        .reduce(Stats::default, Stats::merge)
}

/// Text-side folding (backreferences) and \w \W \b for every c in `subjects`.
fn api_text_side(run: &Run, subjects: &[u32]) -> Stats {
    let mk = |p: &str, f: &str| regress::Regex::with_flags(p, f).unwrap();
    let sets: Vec<(&str, regress::Regex, regress::Regex, regress::Regex, regress::Regex, regress::Regex)> = ["i", "iu", "iv"]
        .iter()
        .map(|f| (*f, mk(r"^(.)\1$", &format!("{}s", f)), mk(r"^\w$", f), mk(r"^\W$", f), mk(r"\b", f), mk(r"^[\w]$", f)))
        .collect();
    let nb: Vec<(&str, regress::Regex)> = ["i", "iu", "iv"].iter().map(|f| (*f, mk(r"\B", f))).collect();
    let nb = &nb;
    let sets = &sets;
    subjects
        .par_iter()
        .fold(Stats::default, |mut st, &c| {
            let cc = char::from_u32(c).unwrap();
            for (fs, backref, w, nw, b, bw) in sets.iter() {
                let um = fs.contains('u') || fs.contains('v');
                // partners to try: oracle class, the class the implementation expands to, neighbours
                let mut ds: BTreeSet<u32> = fold::class_of(c, um).into_iter().collect();
                #[cfg(feature = "hooks")]
                {
                    for d in if um { regress::verif::unfold_char(c) } else { regress::verif::unfold_uppercase_char(c) } {
                        ds.insert(d);
                    }
                }
                for d in [c.wrapping_sub(1), c + 1, c ^ 0x20, c + 0x20, c.wrapping_sub(0x20), c + 1 + 0x20] {
                    if d <= MAXCP && !is_surrogate(d) {
                        ds.insert(d);
                    }
                }
                // class strings are expanded by a separate lowering: /^[\q{c x}]$/iv against every partner d + x / X
                let qre = if *fs == "iv" {
                    let pat: Vec<u32> = "^[\\q{".chars().map(|x| x as u32).chain([c, 'x' as u32]).chain("}]$".chars().map(|x| x as u32)).collect();
                    // syntax characters and class-set punctuators cannot stand unescaped inside \q{...}
                    if cc.is_alphanumeric() || c > 0x7F {
                        match subject::compile(&pat, Flags::parse("iv"), false) {
                            CompileOutcome::Ok(r) => Some(r),
                            other => {
                                st.violation(&run.known, "C10", "class string does not compile", 1, case(fs, c, "/^[\\q{c x}]$/iv does not compile", J::s("Ok"), J::s(&format!("{:?}", other))));
                                None
                            }
                        }
                    } else {
                        None
                    }
                } else {
                    None
                };
                for d in ds {
                    let Some(dc) = char::from_u32(d) else { continue };
                    if let Some(qre) = &qre {
                        for tail in ['x', 'X'] {
                            let t: String = [dc, tail].iter().collect();
                            st.add("evaluations", 1);
                            st.add("validated", 1);
                            let exp = fold::same(c, d, true);
                            let got = subject::guarded(u64::MAX, || qre.find(&t).is_some());
                            if got != Outcome::Ok(exp) {
                                st.violation(&run.known, "C10", &format!("class string folding differs under iv {}", block(c)), 4, case(fs, c, &format!("/^[\\q{{U+{:04X} x}}]$/iv on U+{:04X} {}", c, d, tail), J::Bool(exp), J::s(&format!("{:?}", got))).set("partner", J::u(d as u64)));
                            }
                        }
                    }
                    let s: String = [cc, dc].iter().collect();
                    st.add("evaluations", 1);
                    st.add("validated", 1);
                    let exp = fold::same(c, d, um);
                    if exp && c != d {
                        st.add("nontrivial", 1);
                    }
                    let got = subject::guarded(u64::MAX, || backref.find(&s).is_some());
                    if got != Outcome::Ok(exp) {
                        st.violation(&run.known, "C10", &format!("backreference folding differs under {} {}", fs, block(c)), 4, case(fs, c, &format!("/^(.)\\1$/{}s on U+{:04X} U+{:04X}", fs, c, d), J::Bool(exp), J::s(&format!("{:?}", got))).set("partner", J::u(d as u64)));
                    }
                }
                // \w, \W, [\w], \b
                let s: String = cc.to_string();
                let word = is_basic_word(c) || (um && fold::class_of(c, true).iter().any(|&d| is_basic_word(d)));
                st.add("evaluations", 4);
                st.add("validated", 4);
                if word {
                    st.add("nontrivial", 1);
                }
                for (name, re, exp) in [("\\w", w, word), ("\\W", nw, !word), ("[\\w]", bw, word)] {
                    let got = subject::guarded(u64::MAX, || re.find(&s).is_some());
                    if got != Outcome::Ok(exp) {
                        st.violation(&run.known, "C10", &format!("{} under {} differs {}", name, fs, block(c)), 4, case(fs, c, &format!("/^{}$/{} on U+{:04X}", name, fs, c), J::Bool(exp), J::s(&format!("{:?}", got))));
                    }
                }
                let got = subject::guarded(u64::MAX, || b.find(&s).is_some());
                if got != Outcome::Ok(word) {
                    st.violation(&run.known, "C10", &format!("\\b under {} differs {}", fs, block(c)), 4, case(fs, c, &format!("/\\b/{} on U+{:04X}", fs, c), J::Bool(word), J::s(&format!("{:?}", got))));
                }
                // every \b and \B position with the character on the left and on the right of the position,
                // next to a word character and next to a non-word character, through both executors
                let notb = &nb.iter().find(|(f, _)| f == fs).unwrap().1;
                for (l, r) in [("", ""), ("-", "-"), ("a", "a"), ("-", "a"), ("a", "-")] {
                    let t = format!("{}{}{}", l, cc, r);
                    let chars: Vec<char> = t.chars().collect();
                    let mut offs: Vec<usize> = Vec::new();
                    let mut o = 0;
                    for ch in &chars {
                        offs.push(o);
                        o += ch.len_utf8();
                    }
                    offs.push(o);
                    let isw = |ch: char| -> bool { if ch == cc { word } else { ch == 'a' } };
                    let mut exp_b: Vec<usize> = Vec::new();
                    let mut exp_nb: Vec<usize> = Vec::new();
                    for i in 0..=chars.len() {
                        let lw = i > 0 && isw(chars[i - 1]);
                        let rw = i < chars.len() && isw(chars[i]);
                        if lw != rw {
                            exp_b.push(offs[i])
                        } else {
                            exp_nb.push(offs[i])
                        }
                    }
                    for (name, re, exp) in [("\\b", b, &exp_b), ("\\B", notb, &exp_nb)] {
                        for pike in [false, true] {
                            st.add("evaluations", 1);
                            st.add("validated", 1);
                            let got = subject::guarded(u64::MAX, || -> Vec<usize> {
                                if pike {
                                    regress::backends::find::<regress::backends::PikeVMExecutor>(re, &t, 0).map(|m| m.start()).collect()
                                } else {
                                    re.find_iter(&t).map(|m| m.start()).collect()
                                }
                            });
                            if got != Outcome::Ok(exp.clone()) {
                                st.violation(&run.known, "C10", &format!("{} positions under {} differ {}{}", name, fs, block(c), if pike { " (PikeVM)" } else { "" }), 4, case(fs, c, &format!("/{}/{} on {:?} (U+{:04X} between {:?} and {:?})", name, fs, t, c, l, r), J::s(&format!("{:?}", exp)), J::s(&format!("{:?}", got))));
                            }
                        }
                    }
                }
            }
            st
        })
        .reduce(Stats::default, Stats::merge)
}

fn phase(name: &str) {
    let rss = std::fs::read_to_string("/proc/self/status").ok().and_then(|s| s.lines().find(|l| l.starts_with("VmRSS")).map(|l| l.split_whitespace().nth(1).unwrap_or("?").to_string())).unwrap_or_default();
    println!("  C10 phase: {} (rss {} KB)", name, rss);
}

pub fn c10(run: &mut Run) -> Stats {
    let thorough = run.thorough();
    let mut st = Stats::default();
    #[cfg(feature = "hooks")]
    hook_level(run, &mut st);
    #[cfg(feature = "hooks")]
    let k = candidate_set();
    #[cfg(not(feature = "hooks"))]
    let k: Vec<u32> = {
        let t = fold::tables();
        let mut s: BTreeSet<u32> = t.scf.keys().chain(t.upper.keys()).copied().collect();
        for c in 0..128 {
            s.insert(c);
        }
        s.into_iter().collect()
    };
    let all: Vec<u32> = (0..=MAXCP).filter(|c| !is_surrogate(*c)).collect();
    // API, candidates x candidates, all kinds and modes
    phase("hook level done");
    st = st.merge(api_level(run, &k, &k, &["literal", "class", "negclass"], &["i", "iu", "iv"], "K"));
    phase("K x K done");
    st = st.merge(api_text_side(run, &k));
    phase("text side K done");
    if thorough {
        // every scalar as the pattern character over the all-scalars haystack
        st = st.merge(api_level(run, &all, &all, &["literal"], &["i", "iu"], "all scalars"));
        phase("all x all literal done");
        st = st.merge(api_level(run, &k, &all, &["class", "negclass"], &["i", "iu", "iv"], "all scalars"));
        phase("K x all class done");
        st = st.merge(api_level(run, &all, &k, &["class"], &["i", "iu"], "K"));
        phase("all x K class done");
        st = st.merge(api_text_side(run, &all));
        phase("text side all done");
    } else {
        run.exhaustive = true; // the hook-level sweep is complete; the API part is over K (stated in rule)
    }
    run.rule = format!(
        "hook level (complete): for every code point 0..=0x10FFFF and both modes, the partition induced by Canonicalize, the compile-time literal expansion and the class closure (singletons, windows, 256-blocks, large spans) equal the oracle; API level: /c/, /[c]/, /[^c]/ under i, iu, iv over a haystack holding every code point of K once (K = {} candidates: members of any non-trivial class in oracle or implementation, neighbours, UTF-8 length boundaries, ASCII), backreference / class string [\\q{{c x}}] (iv) / \\w / \\W / [\\w] / \\b and every \\b / \\B position of c alone and between word / non-word neighbours (both executors) for every c in K{}; the K x K scans run with and without the program's start predicate; non-trivial = the code point has a non-trivial class",
        k.len(),
        if thorough { "; thorough: /c/ for every scalar over the all-scalars haystack, classes of K over all scalars, classes of all scalars over K, text side for all scalars" } else { "" }
    );
    run.assumptions = vec![
        "oracle = oracle/scf_u17.tsv and oracle/upper_u17.tsv (ICU 78.2, Unicode 17; cross-checked against Rust std 17 and regex-syntax 16 by tools/xcheck)".into(),
        "legacy mode is read on code points (a supplementary code point upper-cases as a whole), as the property states".into(),
    ];
    run.extra.push(("candidates".into(), J::u(k.len() as u64)));
    st
}
