//! The enumeration profiles of DESIGN.md section 3: each names a pattern alphabet, the flags to try,
//! the haystack alphabet and the bounds per tier.
use crate::ast::*;
use crate::enumerate::{Profile, Unary};

pub struct SweepProfile {
    pub profile: Profile,
    pub flags: Vec<Flags>,
    pub alphabet: Vec<u32>,
    pub size_quick: usize,
    pub size_thorough: usize,
    pub hay_quick: usize,
    pub hay_thorough: usize,
}

fn ch(c: char) -> Node {
    Node::Char(c as u32)
}
fn cls(neg: bool, s: &str) -> Node {
    Node::Class { negated: neg, items: s.chars().map(|c| ClassItem::Single(c as u32)).collect() }
}
fn q(min: u32, max: Option<u32>, g: bool) -> Unary {
    Unary::Quant(min, max, g)
}
fn fl(s: &str) -> Flags {
    Flags::parse(s)
}
fn cps(s: &str) -> Vec<u32> {
    s.chars().map(|c| c as u32).collect()
}

pub fn core() -> SweepProfile {
    let mut unary = vec![Unary::Group];
    for g in [true, false] {
        unary.push(q(0, None, g));
        unary.push(q(1, None, g));
        unary.push(q(0, Some(1), g));
        unary.push(q(2, Some(2), g));
        unary.push(q(1, Some(2), g));
    }
    SweepProfile {
        profile: Profile {
            name: "P-core",
            leaves: vec![ch('a'), ch('b'), Node::Dot, Node::Empty, Node::BackRef(1)],
            unary,
            cat: true,
            alt: true,
            max_quant_nest: 0,
        },
        flags: vec![fl("")],
        alphabet: cps("ab"),
        size_quick: 5,
        size_thorough: 6,
        hay_quick: 4,
        hay_thorough: 5,
    }
}

/// Captures read back by backreferences while lazy / optional loops backtrack into the group:
/// few constructors, deep sizes (the undo log of capture ends lives here).
pub fn capback() -> SweepProfile {
    let unary = vec![Unary::Group, q(1, Some(2), false), q(0, Some(1), true), q(1, Some(3), true), q(0, None, false), q(0, Some(2), true), q(0, Some(2), false)];
    SweepProfile {
        profile: Profile { name: "P-capback", leaves: vec![ch('a'), ch('b'), Node::BackRef(1), Node::Dot], unary, cat: true, alt: true, max_quant_nest: 2 },
        flags: vec![fl("")],
        alphabet: cps("ab"),
        size_quick: 6,
        size_thorough: 7,
        hay_quick: 4,
        hay_thorough: 5,
    }
}

/// Anchors under optional / repeated groups and alternations (start-anchored detection), with and
/// without the m flag.
pub fn anchor() -> SweepProfile {
    let unary = vec![Unary::Group, q(0, Some(1), true), q(0, None, true), q(1, None, true), Unary::Look(false, false), Unary::Mods(fl("m"), fl("")), Unary::Mods(fl(""), fl("m"))];
    SweepProfile {
        profile: Profile { name: "P-anchor", leaves: vec![Node::AssertStart, ch('a'), ch('b'), Node::Empty, Node::AssertEnd], unary, cat: true, alt: true, max_quant_nest: 1 },
        flags: vec![fl(""), fl("m")],
        alphabet: vec!['a' as u32, 'b' as u32, '\n' as u32],
        size_quick: 6,
        size_thorough: 6,
        hay_quick: 3,
        hay_thorough: 4,
    }
}

/// Nested quantifiers over nullable bodies with few constructors and deeper sizes (termination).
pub fn loops() -> SweepProfile {
    let unary = vec![Unary::Group, q(0, None, true), q(1, None, true), q(0, Some(1), true), q(2, Some(2), true), q(0, None, false), q(1, None, false), q(0, Some(3), true), q(0, Some(1), false), q(1, Some(2), false)];
    SweepProfile {
        profile: Profile { name: "P-loops", leaves: vec![ch('a'), Node::Empty, ch('b')], unary, cat: true, alt: true, max_quant_nest: 3 },
        flags: vec![fl("")],
        alphabet: cps("ab"),
        size_quick: 6,
        size_thorough: 7,
        hay_quick: 3,
        hay_thorough: 4,
    }
}

/// One-character loops with captures over multi-unit characters (giving a character back).
pub fn dotcap() -> SweepProfile {
    let unary = vec![Unary::Group, q(0, None, true), q(0, None, false), q(1, None, true), q(0, Some(1), true), Unary::Look(true, false)];
    SweepProfile {
        profile: Profile {
            name: "P-dotcap",
            leaves: vec![Node::Dot, ch('\u{1F600}'), Node::Class { negated: true, items: vec![ClassItem::Single('a' as u32)] }, ch('a'), Node::Esc(EscKind::NotSpace)],
            unary,
            cat: true,
            alt: false,
            max_quant_nest: 1,
        },
        flags: vec![fl(""), fl("u")],
        alphabet: vec!['a' as u32, 0x1F600, 'é' as u32],
        size_quick: 6,
        size_thorough: 7,
        hay_quick: 3,
        hay_thorough: 4,
    }
}

pub fn look() -> SweepProfile {
    let unary = vec![
        Unary::Group,
        Unary::Look(false, false),
        Unary::Look(false, true),
        Unary::Look(true, false),
        Unary::Look(true, true),
        q(0, None, true),
        q(0, Some(1), true),
        q(1, None, false),
        q(1, Some(2), true),
    ];
    SweepProfile {
        profile: Profile {
            name: "P-look",
            leaves: vec![ch('a'), ch('b'), Node::Empty, Node::AssertStart, Node::AssertEnd, Node::WordB, Node::BackRef(1), Node::BackRef(2), Node::Class { negated: true, items: vec![] }],
            unary,
            cat: true,
            alt: true,
            max_quant_nest: 0,
        },
        flags: vec![fl(""), fl("u")],
        alphabet: cps("ab "),
        size_quick: 4,
        size_thorough: 5,
        hay_quick: 3,
        hay_thorough: 4,
    }
}

pub fn nest() -> SweepProfile {
    let mut unary = vec![Unary::Group];
    for g in [true, false] {
        unary.push(q(0, None, g));
        unary.push(q(1, None, g));
        unary.push(q(0, Some(1), g));
        unary.push(q(0, Some(0), g));
        unary.push(q(1, Some(1), g));
        unary.push(q(2, Some(2), g));
        unary.push(q(0, Some(2), g));
        unary.push(q(1, Some(2), g));
        unary.push(q(2, None, g));
        unary.push(q(2, Some(3), g));
    }
    SweepProfile {
        profile: Profile {
            name: "P-nest",
            leaves: vec![ch('a'), Node::Empty, ch('b')],
            unary,
            cat: true,
            alt: true,
            max_quant_nest: 3,
        },
        flags: vec![fl("")],
        alphabet: cps("ab"),
        size_quick: 4,
        size_thorough: 5,
        hay_quick: 4,
        hay_thorough: 5,
    }
}

/// Lookbehind / lookahead around nested quantifiers and groups: the backward-direction twin of P-nest.
pub fn nestlook() -> SweepProfile {
    let mut unary = vec![Unary::Group, Unary::Look(true, false), Unary::Look(true, true), Unary::Look(false, false)];
    for g in [true, false] {
        unary.push(q(0, None, g));
        unary.push(q(1, None, g));
        unary.push(q(0, Some(1), g));
        unary.push(q(2, Some(2), g));
        unary.push(q(1, Some(2), g));
    }
    SweepProfile {
        profile: Profile {
            name: "P-nestlook",
            leaves: vec![ch('a'), Node::Empty, ch('b'), Node::BackRef(1)],
            unary,
            cat: true,
            alt: true,
            max_quant_nest: 3,
        },
        flags: vec![fl("")],
        alphabet: cps("ab"),
        size_quick: 4,
        size_thorough: 5,
        hay_quick: 4,
        hay_thorough: 4,
    }
}

pub fn utf8() -> SweepProfile {
    let unary = vec![
        Unary::Group,
        Unary::Look(true, false),
        Unary::Look(true, true),
        q(0, None, true),
        q(0, None, false),
        q(1, None, true),
        q(0, Some(1), true),
        q(1, Some(2), false),
        q(2, Some(2), true),
    ];
    SweepProfile {
        profile: Profile {
            name: "P-utf8",
            leaves: vec![
                ch('a'),
                ch('é'),
                ch('€'),
                ch('😀'),
                Node::Dot,
                Node::Class { negated: true, items: vec![ClassItem::Single('a' as u32)] },
                Node::Class { negated: false, items: vec![ClassItem::Single('é' as u32), ClassItem::Single('😀' as u32)] },
                Node::Esc(EscKind::Word),
                Node::Esc(EscKind::NotWord),
                Node::Empty,
                Node::AssertEnd,
                Node::BackRef(1),
                // the any-character class (an inverted empty set) next to arms with a definite first byte
                Node::Class { negated: true, items: vec![] },
            ],
            unary,
            cat: true,
            alt: true,
            max_quant_nest: 2,
        },
        flags: vec![fl(""), fl("u"), fl("s"), fl("m")],
        alphabet: vec!['a' as u32, 'é' as u32, '€' as u32, '😀' as u32, '\n' as u32],
        size_quick: 3,
        size_thorough: 4,
        hay_quick: 3,
        hay_thorough: 4,
    }
}

pub fn icase() -> SweepProfile {
    let unary = vec![Unary::Group, Unary::Look(true, false), q(0, None, true), q(1, None, false), q(2, Some(2), true)];
    let letters = ['k', 'K', '\u{212A}', 's', 'S', '\u{17F}', 'σ', 'ς', 'Σ', 'ß', 'ǅ', 'ǆ'];
    let mut leaves: Vec<Node> = letters.iter().map(|&c| ch(c)).collect();
    leaves.push(cls(false, "k\u{17F}"));
    leaves.push(cls(true, "Kς"));
    leaves.push(Node::Class { negated: false, items: vec![ClassItem::Range('a' as u32, 'z' as u32)] });
    leaves.push(Node::Esc(EscKind::Word));
    leaves.push(Node::Esc(EscKind::NotWord));
    leaves.push(Node::WordB);
    leaves.push(Node::BackRef(1));
    SweepProfile {
        profile: Profile { name: "P-icase", leaves, unary, cat: true, alt: true, max_quant_nest: 1 },
        flags: vec![fl("i"), fl("iu"), fl("iv")],
        alphabet: vec!['k' as u32, 'K' as u32, 0x212A, 's' as u32, 0x17F, 'ς' as u32, 'Σ' as u32, 'ǅ' as u32, ' ' as u32],
        size_quick: 4,
        size_thorough: 4,
        hay_quick: 2,
        hay_thorough: 3,
    }
}

/// Literal runs of several lengths (byte-sequence fusion, 16-byte chunking, prefilters), inside and
/// outside lookbehind, alternations sharing prefixes.
pub fn lit() -> SweepProfile {
    fn lits(s: &str) -> Node {
        Node::Lit(s.chars().map(|c| c as u32).collect())
    }
    let leaves = vec![
        ch('a'),
        ch('b'),
        lits("ab"),
        lits("aba"),
        lits("abab"),
        lits("abababababababa"),    // 15
        lits("abababababababab"),   // 16
        lits("ababababababababa"),  // 17
        lits("ababababababababababababababababa"), // 33
        lits("aé"),
        lits("é€"),
        Node::Empty,
        Node::Dot,
        cls(false, "ab"),
    ];
    let unary = vec![Unary::Group, Unary::Look(true, false), Unary::Look(true, true), Unary::Look(false, false), q(0, Some(1), true), q(1, None, true), q(0, None, false)];
    SweepProfile {
        profile: Profile { name: "P-lit", leaves, unary, cat: true, alt: true, max_quant_nest: 1 },
        flags: vec![fl(""), fl("i")],
        alphabet: cps("ab"),
        size_quick: 3,
        size_thorough: 3,
        hay_quick: 0, // special haystack list, see sweep::lit_hays
        hay_thorough: 0,
    }
}

/// Every one-character body kind x every quantifier, forwards and inside lookbehind.
pub fn onechar() -> SweepProfile {
    let leaves = vec![
        ch('a'),
        ch('é'),
        ch('😀'),
        Node::Dot,
        cls(false, "a"),
        cls(false, "aé"),
        cls(false, "ab😀"),
        cls(false, "\0a"),
        cls(true, "a"),
        cls(true, "é"),
        Node::Class { negated: false, items: vec![ClassItem::Range('a' as u32, 'c' as u32)] },
        Node::Class { negated: false, items: vec![] },
        Node::Class { negated: true, items: vec![] },
        Node::Esc(EscKind::Word),
        Node::Esc(EscKind::NotDigit),
        ch('b'),
        // a lone surrogate in the pattern can never match well-formed text, but must not break the loop
        Node::Char(0xD800),
        Node::Class { negated: false, items: vec![ClassItem::Single(0xDFFF), ClassItem::Single('a' as u32)] },
    ];
    let mut unary = vec![Unary::Group, Unary::Look(true, false), Unary::Look(true, true)];
    for g in [true, false] {
        for (a, b) in [(0, None), (1, None), (0, Some(1)), (0, Some(0)), (1, Some(1)), (2, Some(2)), (0, Some(2)), (1, Some(3)), (2, None), (5, Some(5)), (6, Some(7))] {
            unary.push(q(a, b, g));
        }
    }
    SweepProfile {
        profile: Profile { name: "P-1char", leaves, unary, cat: true, alt: false, max_quant_nest: 1 },
        flags: vec![fl(""), fl("u"), fl("i"), fl("s")],
        alphabet: vec!['a' as u32, 'b' as u32, 'é' as u32, '😀' as u32],
        size_quick: 4,
        size_thorough: 4,
        hay_quick: 2,
        hay_thorough: 3,
    }
}

pub fn named() -> SweepProfile {
    let unary = vec![Unary::Group, Unary::Named("n"), Unary::Named("m"), q(0, None, true), q(0, Some(1), true), Unary::Look(true, false), Unary::Look(false, true)];
    SweepProfile {
        profile: Profile {
            name: "P-named",
            leaves: vec![ch('a'), ch('b'), Node::Empty, Node::NamedRef("n".into()), Node::NamedRef("m".into()), Node::BackRef(1), Node::BackRef(2)],
            unary,
            cat: true,
            alt: true,
            max_quant_nest: 1,
        },
        flags: vec![fl(""), fl("u")],
        alphabet: cps("ab"),
        size_quick: 6,
        size_thorough: 7,
        hay_quick: 3,
        hay_thorough: 4,
    }
}

/// v-mode classes with strings, forwards and inside lookbehind (string pieces, longest-first).
pub fn vset() -> SweepProfile {
    let q = |strs: &[&str]| Node::VClass(VClass { negated: false, op: VOp::Union, operands: vec![VOperand::QStrings(strs.iter().map(|s| s.chars().map(|c| c as u32).collect()).collect())] });
    let unary = vec![Unary::Group, Unary::Look(true, false), Unary::Look(true, true), Unary::Look(false, false), Unary::Quant(0, Some(1), true), Unary::Quant(0, None, true), Unary::Quant(1, None, false), Unary::Quant(2, Some(2), true), Unary::Quant(2, Some(3), true), Unary::Quant(1, None, true)];
    SweepProfile {
        profile: Profile {
            name: "P-vset",
            leaves: vec![
                ch('a'),
                ch('b'),
                q(&["ab", "a"]),
                q(&["ab"]),
                q(&["a", "ba", "bab"]),
                q(&["ab", ""]),
                Node::VClass(VClass { negated: false, op: VOp::Union, operands: vec![VOperand::Char('a' as u32), VOperand::QStrings(vec![vec!['b' as u32, 'a' as u32]])] }),
                Node::VClass(VClass { negated: true, op: VOp::Union, operands: vec![VOperand::Char('a' as u32)] }),
                Node::Prop(false, "RGI_Emoji_Flag_Sequence".into()),
                Node::BackRef(1),
            ],
            unary,
            cat: true,
            alt: true,
            max_quant_nest: 1,
        },
        flags: vec![fl("v"), fl("iv")],
        alphabet: vec!['a' as u32, 'b' as u32, 'A' as u32, 0x1F1E6, 0x1F1F9],
        size_quick: 3,
        size_thorough: 4,
        hay_quick: 3,
        hay_thorough: 4,
    }
}

/// Duplicate named groups with \k references: few constructors, deep sizes.
pub fn dupref() -> SweepProfile {
    let unary = vec![Unary::Named("n"), Unary::Quant(0, None, true), Unary::Quant(0, Some(1), true), Unary::Look(true, false)];
    SweepProfile {
        profile: Profile { name: "P-dupref", leaves: vec![ch('a'), ch('b'), Node::NamedRef("n".into()), Node::Empty], unary, cat: true, alt: true, max_quant_nest: 1 },
        flags: vec![fl(""), fl("i")],
        alphabet: cps("abA"),
        size_quick: 7,
        size_thorough: 8,
        hay_quick: 3,
        hay_thorough: 4,
    }
}

pub fn mods() -> SweepProfile {
    let f = |s: &str| Flags::parse(s);
    let unary = vec![
        Unary::Group,
        Unary::Mods(f("i"), f("")),
        Unary::Mods(f(""), f("i")),
        Unary::Mods(f("m"), f("")),
        Unary::Mods(f("s"), f("m")),
        Unary::Mods(f("ims"), f("")),
        Unary::Mods(f(""), f("ims")),
        q(0, None, true),
        Unary::Look(true, false),
    ];
    SweepProfile {
        profile: Profile {
            name: "P-mod",
            leaves: vec![ch('a'), ch('A'), Node::Dot, Node::AssertStart, Node::AssertEnd, Node::BackRef(1), cls(true, "a"), Node::Esc(EscKind::Word), Node::WordB],
            unary,
            cat: true,
            alt: true,
            max_quant_nest: 1,
        },
        flags: vec![f(""), f("i"), f("m"), f("s"), f("iu"), f("imsv")],
        alphabet: vec!['a' as u32, 'A' as u32, '\n' as u32],
        size_quick: 3,
        size_thorough: 4,
        hay_quick: 3,
        hay_thorough: 4,
    }
}

/// Literals longer than the 16-byte chunk limit around nested assertions of both directions (the emitter's
/// direction flag must be restored on leaving each assertion): few constructors, deep sizes.
pub fn longlook() -> SweepProfile {
    let l17 = Node::Lit("abcdefghijklmnopq".chars().map(|c| c as u32).collect());
    let unary = vec![Unary::Look(true, false), Unary::Look(false, false), Unary::Look(true, true), Unary::Look(false, true)];
    SweepProfile {
        profile: Profile { name: "P-longlook", leaves: vec![l17, ch('x')], unary, cat: true, alt: false, max_quant_nest: 0 },
        flags: vec![fl("")],
        alphabet: cps("x"),
        size_quick: 7,
        size_thorough: 8,
        hay_quick: 0, // special haystack list, see sweep::longlook_hays
        hay_thorough: 0,
    }
}

/// v-mode class strings before, inside and after nested assertions of both directions (string pieces are
/// emitted in the direction of the enclosing assertion).
pub fn vlook() -> SweepProfile {
    let q = |strs: &[&str]| Node::VClass(VClass { negated: false, op: VOp::Union, operands: vec![VOperand::QStrings(strs.iter().map(|s| s.chars().map(|c| c as u32).collect()).collect())] });
    let unary = vec![Unary::Look(true, false), Unary::Look(false, false), Unary::Look(true, true), Unary::Look(false, true)];
    SweepProfile {
        profile: Profile { name: "P-vlook", leaves: vec![ch('a'), ch('b'), q(&["ab"]), q(&["ba", "b"])], unary, cat: true, alt: false, max_quant_nest: 0 },
        flags: vec![fl("v")],
        alphabet: cps("ab"),
        size_quick: 6,
        size_thorough: 7,
        hay_quick: 4,
        hay_thorough: 5,
    }
}

/// Sub-expressions that can never match (the empty class) next to groups, quantified groups and
/// assertions containing groups: what early-fail propagation may and may not discard.
pub fn fail() -> SweepProfile {
    let unary = vec![Unary::Group, Unary::Look(false, false), Unary::Look(true, true), q(0, None, true)];
    SweepProfile {
        profile: Profile { name: "P-fail", leaves: vec![Node::Class { negated: false, items: vec![] }, ch('a')], unary, cat: true, alt: true, max_quant_nest: 1 },
        flags: vec![fl("")],
        alphabet: cps("a"),
        size_quick: 8,
        size_thorough: 9,
        hay_quick: 3,
        hay_thorough: 4,
    }
}

/// Case-insensitive backreferences whose fold partners have different encoded lengths, forwards and inside
/// lookbehind (k / U+212A: 1 and 3 bytes; U+2C65 / U+023A: 3 and 2 bytes; U+10428 / U+10400: supplementary).
pub fn icaseback() -> SweepProfile {
    let unary = vec![Unary::Group, Unary::Look(true, false)];
    SweepProfile {
        profile: Profile {
            name: "P-icaseback",
            leaves: vec![ch('k'), ch('\u{212A}'), ch('\u{2C65}'), ch('\u{10428}'), Node::BackRef(1), Node::Dot],
            unary,
            cat: true,
            alt: false,
            max_quant_nest: 0,
        },
        flags: vec![fl("i"), fl("iu")],
        alphabet: vec!['k' as u32, 0x212A, 0x2C65, 0x23A, 0x10428, 0x10400],
        size_quick: 7,
        size_thorough: 7,
        hay_quick: 3,
        hay_thorough: 3,
    }
}

pub fn by_name(name: &str) -> Option<SweepProfile> {
    Some(match name {
        "core" => core(),
        "capback" => capback(),
        "anchor" => anchor(),
        "loops" => loops(),
        "dotcap" => dotcap(),
        "look" => look(),
        "nest" => nest(),
        "nestlook" => nestlook(),
        "utf8" => utf8(),
        "icase" => icase(),
        "lit" => lit(),
        "onechar" => onechar(),
        "named" => named(),
        "vset" => vset(),
        "dupref" => dupref(),
        "mods" => mods(),
        "longlook" => longlook(),
        "vlook" => vlook(),
        "fail" => fail(),
        "icaseback" => icaseback(),
        _ => return None,
    })
}

pub const ALL: [&str; 20] = ["core", "capback", "anchor", "loops", "dotcap", "vset", "dupref", "look", "nest", "nestlook", "utf8", "icase", "lit", "onechar", "named", "mods", "longlook", "vlook", "fail", "icaseback"];
