//! Replay of one recorded case without the explorer, and an ad-hoc `case` command.
use crate::ast::Flags;
use crate::enumerate::Hay;
use crate::json::{self, J};
use crate::print;
use crate::refmatch;
use crate::refparse;
use crate::subject::{self, CompileOutcome, Outcome};
use crate::sweep;

fn cps_of(j: &J, key: &str, fallback: &str) -> Vec<u32> {
    if let Some(v) = j.get(key).and_then(|x| x.to_cps()) {
        return v;
    }
    j.get(fallback).and_then(|x| x.str()).map(|s| s.chars().map(|c| c as u32).collect()).unwrap_or_default()
}

/// Run one (pattern, flags, haystack, start) through every configuration and the reference; twice,
/// asserting identical observations (determinism gate).
pub fn run_search_case(pat: &[u32], fl: Flags, hay: &Hay, start: usize) -> J {
    let mut out = J::obj().set("pattern", J::s(&print::show(pat))).set("flags", J::s(&fl.to_string())).set("haystack", J::s(&print::show(&hay.cps))).set("start", J::u(start as u64));
    match refparse::parse(pat, fl) {
        Ok(ast) => {
            out.put("reference_parse", J::s("Ok"));
            match refmatch::compile(&ast, fl) {
                Ok(prog) => {
                    let rt = sweep::ref_table(&prog, hay, 10_000_000);
                    let s_cp = hay.cp_index(start.min(hay.text.len())).unwrap_or(hay.cps.len());
                    let all = if start <= hay.text.len() { rt.all_from(s_cp, hay) } else { vec![] };
                    out.put("reference_matches", sweep::seq_json(&all));
                    out.put("reference_steps", J::u(rt.steps));
                }
                Err(e) => out.put("reference_matches", J::s(&format!("unsupported: {:?}", e))),
            }
        }
        Err(e) => out.put("reference_parse", J::s(&format!("SyntaxError: {}", e))),
    }
    for (name, no_opt) in [("opt", false), ("no_opt", true)] {
        match subject::compile(pat, fl, no_opt) {
            CompileOutcome::Ok(re) => {
                for (mname, mode) in [("backtrack", subject::BT), ("pikevm", subject::PIKE), ("backtrack_ascii", subject::BT_ASCII), ("pikevm_ascii", subject::PIKE_ASCII)] {
                    if mode.ascii && !hay.is_ascii() {
                        continue;
                    }
                    let a = subject::find_n(&re, mode, &hay.text, start, 64, 5_000_000);
                    let steps = subject::steps();
                    let b = subject::find_n(&re, mode, &hay.text, start, 64, 5_000_000);
                    let mut o = J::obj().set("matches", sweep::outcome_json(&a)).set("steps", J::u(steps));
                    if a != b {
                        o.put("NONDETERMINISTIC", sweep::outcome_json(&b));
                    }
                    out.put(&format!("{}_{}", name, mname), o);
                }
                if !no_opt {
                    out.put("start_predicate", J::s(&subject::start_predicate_kind(&re)));
                    if let CompileOutcome::Ok(r2) = subject::compile_without_prefilter(pat, fl, false) {
                        out.put("opt_backtrack_no_prefilter", sweep::outcome_json(&subject::find_n(&r2, subject::BT, &hay.text, start, 64, 5_000_000)));
                    }
                }
            }
            CompileOutcome::Err(e) => out.put(&format!("{}_compile", name), J::s(&format!("Err: {}", e))),
            CompileOutcome::Panic(e) => out.put(&format!("{}_compile", name), J::s(&format!("PANIC: {}", e))),
        }
    }
    out
}

pub fn replay_file(path: &str) -> i32 {
    let txt = match std::fs::read_to_string(path) {
        Ok(t) => t,
        Err(e) => {
            eprintln!("cannot read {}: {}", path, e);
            return 2;
        }
    };
    let j = match json::parse(&txt) {
        Ok(j) => j,
        Err(e) => {
            eprintln!("cannot parse {}: {}", path, e);
            return 2;
        }
    };
    let case = j.get("case").cloned().unwrap_or(j.clone());
    let kind = case.get("kind").and_then(|k| k.str()).unwrap_or("search").to_string();
    let fl = Flags::parse(case.get("flags").and_then(|f| f.str()).unwrap_or(""));
    match kind.as_str() {
        "search" | "accept" | "compile" => {
            let pat = cps_of(&case, "pattern_cps", "pattern");
            let hay = Hay::new(cps_of(&case, "haystack_cps", "haystack"));
            let start = case.get("start").and_then(|s| s.int()).unwrap_or(0) as usize;
            println!("{}", run_search_case(&pat, fl, &hay, start).pretty());
            0
        }
        other => {
            println!("replay of kind {:?}: the recorded case is self-describing; re-run the property's check to reproduce\n{}", other, case.pretty());
            0
        }
    }
}

pub fn adhoc(args: &[String]) -> i32 {
    let pat: Vec<u32> = args.first().map(|s| s.chars().map(|c| c as u32).collect()).unwrap_or_default();
    let fl = Flags::parse(args.get(1).map(|s| s.as_str()).unwrap_or(""));
    let hay = Hay::new(args.get(2).map(|s| s.chars().map(|c| c as u32).collect()).unwrap_or_default());
    let start = args.get(3).and_then(|s| s.parse().ok()).unwrap_or(0);
    let r = run_search_case(&pat, fl, &hay, start);
    println!("{}", r.pretty());
    let _ = Outcome::Ok(());
    0
}
