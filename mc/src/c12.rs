//! C12: character classes evaluate as sets (legacy brackets and v-mode class sets).
use crate::ast::*;
use crate::enumerate::{self, Hay};
use crate::json::J;
use crate::print;
use crate::refparse;
use crate::report::{Run, Stats};
use crate::sweep::{self, Cfg, Prop};
use rayon::prelude::*;
use std::collections::HashSet;

fn ch(c: char) -> u32 {
    c as u32
}

/// v-mode operands (depth 0).
fn v_leaves() -> Vec<VOperand> {
    vec![
        VOperand::Char(ch('a')),
        VOperand::Char(ch('b')),
        VOperand::Char(ch('&')),
        VOperand::Char(ch('-')),
        VOperand::Char(ch('k')),
        VOperand::Char(0x212A),
        VOperand::Char(0x17F),
        VOperand::Char(8),
        VOperand::Range(ch('a'), ch('c')),
        VOperand::Esc(EscKind::Digit),
        VOperand::Esc(EscKind::Word),
        VOperand::Esc(EscKind::NotWord),
        VOperand::QStrings(vec![vec![ch('a'), ch('b')], vec![ch('a')], vec![]]),
        VOperand::QStrings(vec![vec![ch('b')]]),
        VOperand::QStrings(vec![vec![ch('k'), ch('a')], vec![ch('a'), ch('b')]]),
        // strings spelt in the other case (under iv every operand is folded, whichever side it is on)
        VOperand::QStrings(vec![vec![ch('A'), ch('B')]]),
        VOperand::QStrings(vec![vec![ch('K'), ch('a')], vec![ch('a'), ch('B')], vec![ch('B')]]),
        VOperand::Char(ch('A')),
        // caseless - cased - caseless strings (the lowering of a class string keeps its pieces in order)
        VOperand::QStrings(vec![vec![ch('1'), ch('a'), ch('2')]]),
        // a union of string-bearing operands whose strings arrive unsorted (ka before ab), as an operand
        VOperand::Nested(Box::new(VClass { negated: false, op: VOp::Union, operands: vec![VOperand::QStrings(vec![vec![ch('k'), ch('a')]]), VOperand::QStrings(vec![vec![ch('a'), ch('b')], vec![ch('1'), ch('a'), ch('2')]])] })),
        VOperand::Prop(false, "Lu".into()),
        VOperand::Prop(true, "Lu".into()),
        // multi-interval operands and ranges that straddle them (interval arithmetic of -- and &&)
        VOperand::Range(ch('1'), ch('A')),
        VOperand::Nested(Box::new(VClass { negated: false, op: VOp::Union, operands: vec![VOperand::Range(ch('a'), ch('b')), VOperand::Range(ch('k'), ch('s'))] })),
        VOperand::Nested(Box::new(VClass { negated: false, op: VOp::Union, operands: vec![VOperand::Range(ch('b'), ch('k'))] })),
        VOperand::Nested(Box::new(VClass { negated: false, op: VOp::Union, operands: vec![VOperand::Range(ch('&'), ch('a')), VOperand::Char(ch('x'))] })),
    ]
}

pub fn v_classes(depth: usize, thorough: bool) -> Vec<VClass> {
    let leaves = v_leaves();
    let mut operand_pool: Vec<VOperand> = leaves.clone();
    let mut result: Vec<VClass> = Vec::new();
    for d in 0..=depth {
        let mut level: Vec<VClass> = Vec::new();
        // unions of 0, 1, 2 operands; intersections / subtractions of 2 (3 in thorough at depth 0)
        level.push(VClass { negated: false, op: VOp::Union, operands: vec![] });
        level.push(VClass { negated: true, op: VOp::Union, operands: vec![] });
        for a in &operand_pool {
            for neg in [false, true] {
                level.push(VClass { negated: neg, op: VOp::Union, operands: vec![a.clone()] });
            }
        }
        let pool2: Vec<&VOperand> = if d == 0 { operand_pool.iter().collect() } else { operand_pool.iter().step_by(if thorough { 3 } else { 7 }).collect() };
        for a in &pool2 {
            for b in &pool2 {
                for op in [VOp::Union, VOp::Inter, VOp::Sub] {
                    if op != VOp::Union && (matches!(a, VOperand::Range(..)) || matches!(b, VOperand::Range(..))) {
                        continue;
                    }
                    for neg in [false, true] {
                        level.push(VClass { negated: neg, op, operands: vec![(*a).clone(), (*b).clone()] });
                    }
                }
            }
        }
        if d == 0 && thorough {
            let small: Vec<&VOperand> = operand_pool.iter().filter(|o| !matches!(o, VOperand::Range(..))).collect();
            for a in &small {
                for b in &small {
                    for c in small.iter().step_by(3) {
                        for op in [VOp::Inter, VOp::Sub] {
                            level.push(VClass { negated: false, op, operands: vec![(*a).clone(), (*b).clone(), (*c).clone()] });
                        }
                    }
                }
            }
        }
        // next pool: leaves + a stratified sample of this level as nested classes
        if d < depth {
            let mut next = leaves.clone();
            let stride = (level.len() / if thorough { 60 } else { 24 }).max(1);
            for c in level.iter().step_by(stride) {
                next.push(VOperand::Nested(Box::new(c.clone())));
            }
            operand_pool = next;
        }
        result.extend(level);
    }
    result
}

pub fn legacy_classes() -> Vec<Node> {
    let items: Vec<ClassItem> = vec![
        ClassItem::Single(ch('a')),
        ClassItem::Single(ch('-')),
        ClassItem::Single(ch('k')),
        ClassItem::Single(0x212A),
        ClassItem::Single(0x17F),
        ClassItem::Single(ch('^')),
        ClassItem::Range(ch('a'), ch('c')),
        ClassItem::Range(ch('K'), ch('k')),
        ClassItem::Esc(EscKind::Digit),
        ClassItem::Esc(EscKind::Word),
        ClassItem::Esc(EscKind::NotWord),
        ClassItem::Esc(EscKind::NotSpace),
    ];
    let mut out = Vec::new();
    for neg in [false, true] {
        out.push(Node::Class { negated: neg, items: vec![] });
        for a in &items {
            out.push(Node::Class { negated: neg, items: vec![a.clone()] });
            for b in &items {
                out.push(Node::Class { negated: neg, items: vec![a.clone(), b.clone()] });
            }
        }
    }
    out
}

pub fn universe() -> Vec<u32> {
    vec![ch('a'), ch('b'), ch('d'), ch('k'), ch('K'), 0x212A, ch('s'), 0x17F, ch('&'), ch('-'), ch('1'), ch('_'), ch('x'), 8, ch('^'), ch('A'), ch(' '), ch('B'), ch('2')]
}

/// (C) classes whose members sit on the UTF-8 / UTF-16 encoding-length boundaries: every class of one or two
/// items (single code points and ranges between neighbouring boundary points), plain and negated.
pub fn boundary_classes() -> (Vec<Node>, Vec<u32>) {
    let pts: Vec<u32> = vec![0x0, 0x7C, 0x7D, 0x7F, 0x80, 0x81, 0x7FF, 0x800, 0xFFFF, 0x10000, 0x10FFFF];
    let mut items: Vec<ClassItem> = pts.iter().map(|&c| ClassItem::Single(c)).collect();
    for (i, &a) in pts.iter().enumerate() {
        for &b in &pts[i + 1..] {
            items.push(ClassItem::Range(a, b));
        }
    }
    let mut out = Vec::new();
    for neg in [false, true] {
        for (i, a) in items.iter().enumerate() {
            out.push(Node::Class { negated: neg, items: vec![a.clone()] });
            for b in &items[i + 1..] {
                out.push(Node::Class { negated: neg, items: vec![a.clone(), b.clone()] });
            }
        }
    }
    // small sets that stay below the 4-member literal-set limit and 5-member sets just above it
    for set in [vec![0x7F, 0x80], vec![0x7E, 0x7F, 0x80], vec![0x0, 0x7F, 0x80, 0x7A], vec![0x7C, 0x7D, 0x7E, 0x7F, 0x80], vec![0x80, 0x7FF], vec![0x7FF, 0x800, 0xFFFF, 0x10000]] {
        out.push(Node::Class { negated: false, items: set.iter().map(|&c| ClassItem::Single(c)).collect() });
        out.push(Node::Class { negated: true, items: set.iter().map(|&c| ClassItem::Single(c)).collect() });
    }
    let universe = vec![0x0, 0x7A, 0x7B, 0x7C, 0x7D, 0x7E, 0x7F, 0x80, 0x81, 0xC2, 0x7FE, 0x7FF, 0x800, 0x801, 0xFFFE, 0xFFFF, 0x10000, 0x10001, 0x10FFFE, 0x10FFFF];
    (out, universe)
}

fn wrap(class: Node) -> Vec<Node> {
    vec![Node::Cat(vec![Node::AssertStart, class.clone(), Node::AssertEnd]), class]
}

pub fn c12(run: &mut Run) -> Stats {
    let thorough = run.thorough();
    let mut hays: Vec<Hay> = enumerate::all_hays(&universe(), 2);
    for t in ["1a2", "1A2", "12a", "12A", "a12", "21a", "ka1", "ab1", "1ab"] {
        hays.push(Hay::new(t.chars().map(|c| c as u32).collect()));
    }
    let cfg = Cfg { pid: "C12", sig: class_features, prop: Prop::C01, fuel: 2_000_000, ref_limit: 3_000_000, k_ratio: 256, sparse_starts: false };
    let known = run.known.clone();
    // (A) enumerated class expressions
    let vcs = v_classes(if thorough { 2 } else { 1 }, thorough);
    let mut jobs: Vec<(Node, Flags)> = Vec::new();
    let mut seen: HashSet<(Vec<u32>, Flags)> = HashSet::new();
    for vc in &vcs {
        for n in wrap(Node::VClass(vc.clone())) {
            for f in ["v", "iv"] {
                let fl = Flags::parse(f);
                if seen.insert((print::print(&n), fl)) {
                    jobs.push((n.clone(), fl));
                }
            }
        }
    }
    for c in legacy_classes() {
        for n in wrap(c) {
            for f in ["", "i", "u", "iu"] {
                let fl = Flags::parse(f);
                if seen.insert((print::print(&n), fl)) {
                    jobs.push((n.clone(), fl));
                }
            }
        }
    }
    let n_a = jobs.len();
    let st_a = jobs
        .par_iter()
        .fold(Stats::default, |mut st, (ast, fl)| {
            sweep::eval_pattern(&cfg, ast, *fl, &hays, &known, &mut st);
            st
        })
        .reduce(Stats::default, Stats::merge);
    // (C) encoding-boundary classes
    let (bcs, buni) = boundary_classes();
    let bhays: Vec<Hay> = enumerate::all_hays(&buni, 1).into_iter().chain([vec![0x61, 0x80], vec![0x80, 0x61], vec![0x7FF, 0x10000], vec![0x10000, 0x7F]].into_iter().map(Hay::new)).collect();
    let mut bjobs: Vec<(Node, Flags)> = Vec::new();
    for c in &bcs {
        for n in wrap(c.clone()) {
            let astral = match c {
                Node::Class { items, .. } => items.iter().any(|i| match i {
                    ClassItem::Single(a) => *a > 0xFFFF,
                    ClassItem::Range(a, b) => *a > 0xFFFF || *b > 0xFFFF,
                    _ => false,
                }),
                _ => false,
            };
            for f in ["", "i", "u", "iu", "v"] {
                let fl = Flags::parse(f);
                // without u / v a supplementary character in the pattern source is two code units in ES;
                // the property's set reading applies to it only under u / v
                if astral && !(fl.u || fl.v) {
                    continue;
                }
                bjobs.push((n.clone(), fl));
            }
        }
    }
    let n_c = bjobs.len();
    let st_c = bjobs
        .par_iter()
        .fold(Stats::default, |mut st, (ast, fl)| {
            sweep::eval_pattern(&cfg, ast, *fl, &bhays, &known, &mut st);
            st
        })
        .reduce(Stats::default, Stats::merge);
    // (D) classes of many disjoint intervals (26 and 47 ASCII intervals, with and without a non-ASCII member,
    // negated, case-insensitive) from the size-parameterised families, against every printable ASCII character
    let many: Vec<(String, &'static str, Vec<String>)> = sweep::scale_family_fixed().into_iter().filter(|(p, _, _)| p.starts_with('[') || p.starts_with("^(?:[")).collect();
    let st_d = many
        .par_iter()
        .fold(Stats::default, |mut st, (p, f, hs)| {
            let pat: Vec<u32> = p.chars().map(|c| c as u32).collect();
            let fl = Flags::parse(f);
            if let Ok(ast) = refparse::parse(&pat, fl) {
                // one haystack per character (membership of each character on its own) plus the given ones
                let mut hays: Vec<Hay> = hs.iter().map(|h| Hay::new(h.chars().map(|c| c as u32).collect())).collect();
                hays.extend((0x20u32..0x7F).chain([0xE9, 0x3B1, 0x391]).map(|c| Hay::new(vec![c])));
                sweep::eval_pattern_text(&cfg, &ast, pat, fl, &hays, &known, &mut st);
            }
            st
        })
        .reduce(Stats::default, Stats::merge);
    // (B) every spelling: all strings over the class syntax alphabet that the reference parser accepts
    let alpha: Vec<u32> = "[]^&-\\q{}|abdwWk!".chars().map(|c| c as u32).collect();
    let maxlen = if thorough { 7 } else { 6 };
    let k = alpha.len() as u64;
    let total: u64 = (0..maxlen).map(|l| k.pow(l as u32)).sum(); // the leading '[' is fixed
    let chunk = 4096u64;
    let nchunks = (total + chunk - 1) / chunk;
    let st_b = (0..nchunks)
        .into_par_iter()
        .fold(Stats::default, |mut st, ci| {
            for idx in ci * chunk..((ci + 1) * chunk).min(total) {
                let mut pat = vec!['[' as u32];
                pat.extend(crate::c08::token_string(&alpha, idx));
                if *pat.last().unwrap() != ']' as u32 {
                    continue;
                }
                for f in ["v", "iv", "", "i", "u"] {
                    let fl = Flags::parse(f);
                    st.add("spellings_tried", 1);
                    let Ok(ast) = refparse::parse(&pat, fl) else { continue };
                    // only whole-pattern classes (the string may also parse as class + literals)
                    if !matches!(ast, Node::Class { .. } | Node::VClass(_)) {
                        continue;
                    }
                    st.add("spellings_valid", 1);
                    for n in wrap(ast) {
                        eval_spelling(&cfg, &n, &pat, fl, &hays, &known, &mut st);
                    }
                }
            }
            st
        })
        .reduce(Stats::default, Stats::merge);
    run.rule = format!(
        "(A) {} class expressions: v-mode operands {{a b & - k U+212A U+017F \\b a-c \\d \\w \\W \\q{{ab|a|}} \\q{{b}} \\q{{ka|ab}} \\q{{AB}} \\q{{Ka|aB|B}} A \\p{{Lu}} \\P{{Lu}}}} combined by union / && / -- with optional ^, nested to depth {}, under v and iv; legacy brackets of <= 2 items with Annex B forms under \"\", i, u, iu; each as /^E$/ and /E/ against every string of length <= 2 over a 19-character universe (plus nine three-character strings), every start; (B) every string '[' + s, |s| <= {} over the alphabet {{[ ] ^ & - \\ q {{ }} | a b d w W k !}}, that the reference parser reads as one class, under v, iv, \"\", i, u (all spellings of the same set); (D) classes of 26 and 47 disjoint ASCII intervals (plain, negated, with a non-ASCII member, case-insensitive) against every printable ASCII character; (C) {} classes of one or two items (singles and ranges) over the encoding-length boundary points {{0 7C 7D 7F 80 81 7FF 800 FFFF 10000 10FFFF}} plus small literal sets around U+0080, plain and negated, under \"\", i, u, iu, v, against every haystack of length <= 1 over 20 boundary neighbours; compared with the reference semantics (range and match); non-trivial = a match exists",
        n_a,
        if thorough { 2 } else { 1 },
        maxlen,
        n_c
    );
    run.assumptions = vec!["reference semantics: CompileToCharSet / CharacterSetMatcher / ClassStrings of ES2025 as transcribed in mc/src/refmatch.rs (self-checked against V8 for v by tools/v8_crosscheck.js)".into()];
    run.extra.push(("class_expressions".into(), J::u(n_a as u64)));
    run.extra.push(("boundary_class_patterns".into(), J::u(n_c as u64)));
    st_a.merge(st_b).merge(st_c).merge(st_d)
}

/// Like sweep::eval_pattern, but the pattern text is the given spelling rather than the printed AST.
fn eval_spelling(cfg: &Cfg, ast: &Node, class_spelling: &[u32], fl: Flags, hays: &[Hay], known: &crate::report::Known, st: &mut Stats) {
    use crate::refmatch;
    use crate::subject::{self, CompileOutcome, Outcome};
    let anchored = matches!(ast, Node::Cat(_));
    let mut pat: Vec<u32> = Vec::new();
    if anchored {
        pat.push('^' as u32);
    }
    pat.extend_from_slice(class_spelling);
    if anchored {
        pat.push('$' as u32);
    }
    st.add("patterns_generated", 1);
    let re = match subject::compile(&pat, fl, false) {
        CompileOutcome::Ok(r) => r,
        _ => {
            st.add("patterns_rejected_by_subject", 1); // C08's matter
            return;
        }
    };
    let Ok(prog) = refmatch::compile(ast, fl) else {
        st.add("patterns_unsupported_by_reference", 1);
        return;
    };
    st.add("patterns_evaluated", 1);
    for hay in hays {
        let rt = sweep::ref_table(&prog, hay, cfg.ref_limit);
        if rt.cut {
            continue;
        }
        for s in 0..=hay.cps.len() {
            st.add("evaluations", 1);
            st.add("validated", 1);
            let exp = rt.first_from(s, hay);
            if exp.is_some() {
                st.add("nontrivial", 1);
            }
            let got = subject::find_n(&re, subject::BT, &hay.text, hay.offs[s], 1, cfg.fuel);
            match got {
                Outcome::Ok(v) => {
                    if v.first() != exp.as_ref() {
                        let cluster = format!("class spelling differs from its set: {} /{}", class_features(&pat), fl.to_string());
                        st.violation(known, "C12", &cluster, pat.len() * 8 + hay.cps.len(), sweep::case_json(&pat, fl, hay, hay.offs[s], "match differs from the set the class denotes", exp.as_ref().map(sweep::smatch_json).unwrap_or(J::Null), sweep::seq_json(&v)));
                    }
                }
                Outcome::Fuel => st.add("undecided_fuel", 1),
                Outcome::Panic(m) => {
                    st.violation(known, "C12", "panic", pat.len(), sweep::case_json(&pat, fl, hay, hay.offs[s], "panic", J::Null, J::s(&m)));
                }
            }
        }
    }
}

/// Coarse signature of a class pattern: which features occur (used only to group violations).
pub fn class_features(pat: &[u32]) -> String {
    let s: String = pat.iter().map(|&c| char::from_u32(c).unwrap_or('?')).collect();
    let mut f: Vec<&str> = Vec::new();
    for (needle, name) in [("\\W", "\\W"), ("\\w", "\\w"), ("\\d", "\\d"), ("\\S", "\\S"), ("\\q", "\\q"), ("\\p", "\\p"), ("\\P", "\\P"), ("\\b", "\\b"), ("&&", "&&"), ("--", "--")] {
        if s.contains(needle) {
            f.push(name);
        }
    }
    let body: Vec<char> = s.trim_start_matches('^').chars().collect();
    let body_s = |from: usize| -> String { body.iter().skip(from).collect() };
    if body_s(0).starts_with("[^") {
        f.push("top-negated");
    }
    if body_s(2).contains("[^") {
        f.push("nested-negated");
    }
    if body_s(1).contains('[') {
        f.push("nested");
    }
    let single_amp = s.replace("&&", "").contains('&');
    if single_amp {
        f.push("single-&");
    }
    if f.is_empty() {
        f.push("plain");
    }
    f.join(" ")
}
