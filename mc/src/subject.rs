//! Thin wrappers over the subject (regress): compile and search with catch_unwind and fuel.
use crate::ast::Flags;
use regress::backends;
use std::cell::RefCell;
use std::panic::{catch_unwind, AssertUnwindSafe};

thread_local! {
    static LAST_PANIC: RefCell<String> = const { RefCell::new(String::new()) };
}

/// Install a panic hook that records the message instead of printing it.
pub fn install_quiet_panic_hook() {
    std::panic::set_hook(Box::new(|info| {
        let msg = if let Some(s) = info.payload().downcast_ref::<&str>() {
            s.to_string()
        } else if let Some(s) = info.payload().downcast_ref::<String>() {
            s.clone()
        } else {
            "<non-string panic>".to_string()
        };
        let loc = info.location().map(|l| format!(" at {}:{}", l.file(), l.line())).unwrap_or_default();
        // a panic that does not come from the subject is a machinery failure: make it visible
        let from_subject = info.location().map(|l| l.file().contains("/repo/")).unwrap_or(false);
        if !from_subject {
            eprintln!("MACHINERY: panic outside the subject: {}{}", msg, loc);
        }
        LAST_PANIC.with(|p| *p.borrow_mut() = format!("{}{}", msg, loc));
    }));
}

pub fn last_panic() -> String {
    LAST_PANIC.with(|p| p.borrow().clone())
}

pub fn rflags(f: Flags, no_opt: bool) -> regress::Flags {
    regress::Flags { icase: f.i, multiline: f.m, dot_all: f.s, no_opt, unicode: f.u, unicode_sets: f.v }
}

#[derive(Debug, Clone)]
pub enum CompileOutcome {
    Ok(regress::Regex),
    Err(String),
    Panic(String),
}

pub fn compile(pat: &[u32], f: Flags, no_opt: bool) -> CompileOutcome {
    let slot = MY_SLOT.with(|s| s.clone());
    if let Some((_, _, _, t0)) = WATCH.get() {
        slot.started_ms.store(t0.elapsed().as_millis() as u64 + 1, std::sync::atomic::Ordering::Relaxed);
    }
    let r = catch_unwind(AssertUnwindSafe(|| regress::Regex::from_unicode(pat.iter().copied(), rflags(f, no_opt))));
    slot.started_ms.store(0, std::sync::atomic::Ordering::Relaxed);
    match r {
        Ok(Ok(re)) => CompileOutcome::Ok(re),
        Ok(Err(e)) => CompileOutcome::Err(e.text),
        Err(_) => CompileOutcome::Panic(last_panic()),
    }
}

/// Compile the same program but with the start predicate removed (StartPredicate::Arbitrary).
/// No hook is needed: `backends` exposes parse / optimize / emit and the compiled program's
/// `start_pred` field is public; the Arbitrary value is taken from the program of the empty pattern.
pub fn compile_without_prefilter(pat: &[u32], f: Flags, no_opt: bool) -> CompileOutcome {
    let r = catch_unwind(AssertUnwindSafe(|| -> Result<regress::Regex, String> {
        let mut ire = backends::try_parse(pat.iter().copied(), rflags(f, no_opt)).map_err(|e| e.text)?;
        if !no_opt {
            backends::optimize(&mut ire);
        }
        let mut cr = backends::emit(&ire);
        let empty = backends::try_parse("(?:)".chars().map(u32::from), rflags(Flags::default(), true)).map_err(|e| e.text)?;
        let ecr = backends::emit(&empty);
        let dbg = format!("{:?}", ecr.start_pred);
        assert!(dbg == "Arbitrary", "empty pattern does not have an Arbitrary start predicate: {}", dbg);
        cr.start_pred = ecr.start_pred;
        Ok(regress::Regex::from(cr))
    }));
    match r {
        Ok(Ok(re)) => CompileOutcome::Ok(re),
        Ok(Err(e)) => CompileOutcome::Err(e),
        Err(_) => CompileOutcome::Panic(last_panic()),
    }
}

/// Name of the start predicate chosen for a compiled regex (from its Debug rendering).
pub fn start_predicate_kind(re: &regress::Regex) -> String {
    let d = format!("{:?}", re);
    if let Some(p) = d.find("start_pred: ") {
        let rest = &d[p + 12..];
        let end = rest.find(|c: char| !(c.is_alphanumeric() || c == '_')).unwrap_or(rest.len());
        return rest[..end].to_string();
    }
    "?".to_string()
}

pub fn fingerprint(re: &regress::Regex) -> u64 {
    use std::hash::{Hash, Hasher};
    let d = format!("{:?}", re);
    let mut h = std::collections::hash_map::DefaultHasher::new();
    d.hash(&mut h);
    h.finish()
}

#[derive(Debug, Clone, PartialEq, Eq, Hash)]
pub struct SMatch {
    pub start: usize,
    pub end: usize,
    pub caps: Vec<Option<(usize, usize)>>,
}

impl SMatch {
    pub fn from(m: &regress::Match) -> SMatch {
        SMatch { start: m.range.start, end: m.range.end, caps: m.captures.iter().map(|c| c.as_ref().map(|r| (r.start, r.end))).collect() }
    }
}

#[derive(Debug, Clone, PartialEq, Eq)]
pub enum Outcome<T> {
    Ok(T),
    /// fuel ran out (only with hooks)
    Fuel,
    Panic(String),
}

#[derive(Clone, Copy, Debug, PartialEq, Eq, Hash)]
pub enum Backend {
    Backtrack,
    Pike,
}

#[derive(Clone, Copy, Debug, PartialEq, Eq, Hash)]
pub struct Mode {
    pub backend: Backend,
    pub ascii: bool,
}

pub const BT: Mode = Mode { backend: Backend::Backtrack, ascii: false };
pub const PIKE: Mode = Mode { backend: Backend::Pike, ascii: false };
pub const BT_ASCII: Mode = Mode { backend: Backend::Backtrack, ascii: true };
pub const PIKE_ASCII: Mode = Mode { backend: Backend::Pike, ascii: true };

#[cfg(feature = "hooks")]
pub fn reset_fuel(fuel: u64) {
    regress::verif::reset(fuel);
}
#[cfg(not(feature = "hooks"))]
pub fn reset_fuel(_fuel: u64) {}

#[cfg(feature = "hooks")]
pub fn steps() -> u64 {
    regress::verif::steps()
}
#[cfg(not(feature = "hooks"))]
pub fn steps() -> u64 {
    0
}
#[cfg(feature = "hooks")]
pub fn max_bts() -> usize {
    regress::verif::max_bts()
}
#[cfg(not(feature = "hooks"))]
pub fn max_bts() -> usize {
    0
}

// ---------------------------------------------------------------- wall-clock watchdog
// Fuel bounds every search in interpreter steps. A loop that spins *inside* one step (or anywhere the step
// hook is not reached) never spends fuel, so every guarded call also registers its start time; a watchdog
// thread reports a call that has not returned within the wall horizon as a violation of the running property
// and ends the process (the spinning thread cannot be stopped any other way).
pub struct Slot {
    pub started_ms: std::sync::atomic::AtomicU64, // 0 = idle
    pub desc: std::sync::Mutex<String>,
}
static SLOTS: std::sync::Mutex<Vec<std::sync::Arc<Slot>>> = std::sync::Mutex::new(Vec::new());
static WATCH: std::sync::OnceLock<(String, String, String, std::time::Instant)> = std::sync::OnceLock::new();
thread_local! {
    static MY_SLOT: std::sync::Arc<Slot> = {
        let s = std::sync::Arc::new(Slot { started_ms: std::sync::atomic::AtomicU64::new(0), desc: std::sync::Mutex::new(String::new()) });
        SLOTS.lock().unwrap().push(s.clone());
        s
    };
}

/// Describe what this thread is about to run (pattern, flags, ...); cheap, called once per pattern.
pub fn set_case_desc(d: String) {
    MY_SLOT.with(|s| *s.desc.lock().unwrap() = d);
}

/// Start the watchdog for a check (property id, tier, level). Idempotent.
pub fn start_watchdog(pid: &str, tier: &str, level: &str) {
    if WATCH.set((pid.to_string(), tier.to_string(), level.to_string(), std::time::Instant::now())).is_err() {
        return;
    }
    let horizon_s: u64 = std::env::var("VERIF_HANG_SECS").ok().and_then(|s| s.parse().ok()).unwrap_or(if tier == "thorough" { 120 } else { 45 });
    std::thread::spawn(move || loop {
        std::thread::sleep(std::time::Duration::from_millis(500));
        let (pid, tier, level, t0) = WATCH.get().unwrap();
        let now = t0.elapsed().as_millis() as u64 + 1;
        let slots: Vec<std::sync::Arc<Slot>> = SLOTS.lock().unwrap().clone();
        for s in slots {
            let st = s.started_ms.load(std::sync::atomic::Ordering::Relaxed);
            if st != 0 && now > st + horizon_s * 1000 {
                let desc = s.desc.lock().map(|d| d.clone()).unwrap_or_default();
                crate::report::emergency_violation(pid, tier, level, &format!("a call into the subject has not returned after {} s of wall time (and spent no fuel: the loop does not pass the step hook)", horizon_s), &desc);
            }
        }
    });
}

fn run_guarded<T>(fuel: u64, f: impl FnOnce() -> T) -> Outcome<T> {
    reset_fuel(fuel);
    let slot = MY_SLOT.with(|s| s.clone());
    if let Some((_, _, _, t0)) = WATCH.get() {
        slot.started_ms.store(t0.elapsed().as_millis() as u64 + 1, std::sync::atomic::Ordering::Relaxed);
    }
    let r = catch_unwind(AssertUnwindSafe(f));
    slot.started_ms.store(0, std::sync::atomic::Ordering::Relaxed);
    match r {
        Ok(v) => Outcome::Ok(v),
        Err(payload) => {
            #[cfg(feature = "hooks")]
            if payload.downcast_ref::<regress::verif::FuelExhausted>().is_some() {
                return Outcome::Fuel;
            }
            let _ = payload;
            Outcome::Panic(last_panic())
        }
    }
}

/// Up to `limit` matches from `start` (byte offset) with the given executor / input mode.
pub fn find_n(re: &regress::Regex, mode: Mode, text: &str, start: usize, limit: usize, fuel: u64) -> Outcome<Vec<SMatch>> {
    run_guarded(fuel, || {
        let mut out = Vec::new();
        macro_rules! drain {
            ($it:expr) => {{
                let mut it = $it;
                while out.len() < limit {
                    match it.next() {
                        Some(m) => out.push(SMatch::from(&m)),
                        None => break,
                    }
                }
            }};
        }
        match (mode.backend, mode.ascii) {
            // the default executor goes through the public entry point (its start handling is part of
            // what is checked); callers only pass starts on char boundaries or >= len
            (Backend::Backtrack, false) => drain!(re.find_from(text, start)),
            (Backend::Backtrack, true) => drain!(re.find_from_ascii(text, start)),
            #[cfg(feature = "pikevm")]
            (Backend::Pike, false) => drain!(backends::find::<backends::PikeVMExecutor>(re, text, start)),
            #[cfg(feature = "pikevm")]
            (Backend::Pike, true) => drain!(backends::find_ascii::<backends::PikeVMExecutor>(re, text, start)),
            #[cfg(not(feature = "pikevm"))]
            (Backend::Pike, _) => panic!("pikevm backend not built"),
        }
        out
    })
}

/// The public API path: Regex::find_from (asserts the char boundary like users see it).
pub fn api_find_n(re: &regress::Regex, text: &str, start: usize, limit: usize, fuel: u64) -> Outcome<Vec<SMatch>> {
    run_guarded(fuel, || {
        let mut out = Vec::new();
        let mut it = re.find_from(text, start);
        while out.len() < limit {
            match it.next() {
                Some(m) => out.push(SMatch::from(&m)),
                None => break,
            }
        }
        out
    })
}

pub fn guarded<T>(fuel: u64, f: impl FnOnce() -> T) -> Outcome<T> {
    run_guarded(fuel, f)
}
