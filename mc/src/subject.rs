//! Thin wrappers over the subject (regress): compile and search with catch_unwind and fuel.
use crate::ast::Flags;
use regress::backends;
use std::cell::RefCell;
use std::panic::{catch_unwind, AssertUnwindSafe};

thread_local! {
    static LAST_PANIC: RefCell<String> = const { RefCell::new(String::new()) };
}

/// Install a panic hook that records the message instead of printing it.
pub fn install_quiet_panic_hook() {
    std::panic::set_hook(Box::new(|info| {
        let msg = if let Some(s) = info.payload().downcast_ref::<&str>() {
            s.to_string()
        } else if let Some(s) = info.payload().downcast_ref::<String>() {
            s.clone()
        } else {
            "<non-string panic>".to_string()
        };
        let loc = info.location().map(|l| format!(" at {}:{}", l.file(), l.line())).unwrap_or_default();
        // a panic that does not come from the subject is a machinery failure: make it visible
        let from_subject = info.location().map(|l| l.file().contains("/repo/")).unwrap_or(false);
        if !from_subject {
            eprintln!("MACHINERY: panic outside the subject: {}{}", msg, loc);
        }
        LAST_PANIC.with(|p| *p.borrow_mut() = format!("{}{}", msg, loc));
    }));
}

pub fn last_panic() -> String {
    LAST_PANIC.with(|p| p.borrow().clone())
}

pub fn rflags(f: Flags, no_opt: bool) -> regress::Flags {
    regress::Flags { icase: f.i, multiline: f.m, dot_all: f.s, no_opt, unicode: f.u, unicode_sets: f.v }
}

#[derive(Debug, Clone)]
pub enum CompileOutcome {
    Ok(regress::Regex),
    Err(String),
    Panic(String),
}

pub fn compile(pat: &[u32], f: Flags, no_opt: bool) -> CompileOutcome {
    let r = catch_unwind(AssertUnwindSafe(|| regress::Regex::from_unicode(pat.iter().copied(), rflags(f, no_opt))));
    match r {
        Ok(Ok(re)) => CompileOutcome::Ok(re),
        Ok(Err(e)) => CompileOutcome::Err(e.text),
        Err(_) => CompileOutcome::Panic(last_panic()),
    }
}

/// Compile the same program but with the start predicate removed (StartPredicate::Arbitrary).
/// No hook is needed: `backends` exposes parse / optimize / emit and the compiled program's
/// `start_pred` field is public; the Arbitrary value is taken from the program of the empty pattern.
pub fn compile_without_prefilter(pat: &[u32], f: Flags, no_opt: bool) -> CompileOutcome {
    let r = catch_unwind(AssertUnwindSafe(|| -> Result<regress::Regex, String> {
        let mut ire = backends::try_parse(pat.iter().copied(), rflags(f, no_opt)).map_err(|e| e.text)?;
        if !no_opt {
            backends::optimize(&mut ire);
        }
        let mut cr = backends::emit(&ire);
        let empty = backends::try_parse("(?:)".chars().map(u32::from), rflags(Flags::default(), true)).map_err(|e| e.text)?;
        let ecr = backends::emit(&empty);
        let dbg = format!("{:?}", ecr.start_pred);
        assert!(dbg == "Arbitrary", "empty pattern does not have an Arbitrary start predicate: {}", dbg);
        cr.start_pred = ecr.start_pred;
        Ok(regress::Regex::from(cr))
    }));
    match r {
        Ok(Ok(re)) => CompileOutcome::Ok(re),
        Ok(Err(e)) => CompileOutcome::Err(e),
        Err(_) => CompileOutcome::Panic(last_panic()),
    }
}

/// Name of the start predicate chosen for a compiled regex (from its Debug rendering).
pub fn start_predicate_kind(re: &regress::Regex) -> String {
    let d = format!("{:?}", re);
    if let Some(p) = d.find("start_pred: ") {
        let rest = &d[p + 12..];
        let end = rest.find(|c: char| !(c.is_alphanumeric() || c == '_')).unwrap_or(rest.len());
        return rest[..end].to_string();
    }
    "?".to_string()
}

pub fn fingerprint(re: &regress::Regex) -> u64 {
    use std::hash::{Hash, Hasher};
    let d = format!("{:?}", re);
    let mut h = std::collections::hash_map::DefaultHasher::new();
    d.hash(&mut h);
    h.finish()
}

#[derive(Debug, Clone, PartialEq, Eq, Hash)]
pub struct SMatch {
    pub start: usize,
    pub end: usize,
    pub caps: Vec<Option<(usize, usize)>>,
}

impl SMatch {
    pub fn from(m: &regress::Match) -> SMatch {
        SMatch { start: m.range.start, end: m.range.end, caps: m.captures.iter().map(|c| c.as_ref().map(|r| (r.start, r.end))).collect() }
    }
}

#[derive(Debug, Clone, PartialEq, Eq)]
pub enum Outcome<T> {
    Ok(T),
    /// fuel ran out (only with hooks)
    Fuel,
    Panic(String),
}

#[derive(Clone, Copy, Debug, PartialEq, Eq, Hash)]
pub enum Backend {
    Backtrack,
    Pike,
}

#[derive(Clone, Copy, Debug, PartialEq, Eq, Hash)]
pub struct Mode {
    pub backend: Backend,
    pub ascii: bool,
}

pub const BT: Mode = Mode { backend: Backend::Backtrack, ascii: false };
pub const PIKE: Mode = Mode { backend: Backend::Pike, ascii: false };
pub const BT_ASCII: Mode = Mode { backend: Backend::Backtrack, ascii: true };
pub const PIKE_ASCII: Mode = Mode { backend: Backend::Pike, ascii: true };

#[cfg(feature = "hooks")]
pub fn reset_fuel(fuel: u64) {
    regress::verif::reset(fuel);
}
#[cfg(not(feature = "hooks"))]
pub fn reset_fuel(_fuel: u64) {}

#[cfg(feature = "hooks")]
pub fn steps() -> u64 {
    regress::verif::steps()
}
#[cfg(not(feature = "hooks"))]
pub fn steps() -> u64 {
    0
}
#[cfg(feature = "hooks")]
pub fn max_bts() -> usize {
    regress::verif::max_bts()
}
#[cfg(not(feature = "hooks"))]
pub fn max_bts() -> usize {
    0
}

fn run_guarded<T>(fuel: u64, f: impl FnOnce() -> T) -> Outcome<T> {
    reset_fuel(fuel);
    let r = catch_unwind(AssertUnwindSafe(f));
    match r {
        Ok(v) => Outcome::Ok(v),
        Err(payload) => {
            #[cfg(feature = "hooks")]
            if payload.downcast_ref::<regress::verif::FuelExhausted>().is_some() {
                return Outcome::Fuel;
            }
            let _ = payload;
            Outcome::Panic(last_panic())
        }
    }
}

/// Up to `limit` matches from `start` (byte offset) with the given executor / input mode.
pub fn find_n(re: &regress::Regex, mode: Mode, text: &str, start: usize, limit: usize, fuel: u64) -> Outcome<Vec<SMatch>> {
    run_guarded(fuel, || {
        let mut out = Vec::new();
        macro_rules! drain {
            ($it:expr) => {{
                let mut it = $it;
                while out.len() < limit {
                    match it.next() {
                        Some(m) => out.push(SMatch::from(&m)),
                        None => break,
                    }
                }
            }};
        }
        match (mode.backend, mode.ascii) {
            // the default executor goes through the public entry point (its start handling is part of
            // what is checked); callers only pass starts on char boundaries or >= len
            (Backend::Backtrack, false) => drain!(re.find_from(text, start)),
            (Backend::Backtrack, true) => drain!(re.find_from_ascii(text, start)),
            #[cfg(feature = "pikevm")]
            (Backend::Pike, false) => drain!(backends::find::<backends::PikeVMExecutor>(re, text, start)),
            #[cfg(feature = "pikevm")]
            (Backend::Pike, true) => drain!(backends::find_ascii::<backends::PikeVMExecutor>(re, text, start)),
            #[cfg(not(feature = "pikevm"))]
            (Backend::Pike, _) => panic!("pikevm backend not built"),
        }
        out
    })
}

/// The public API path: Regex::find_from (asserts the char boundary like users see it).
pub fn api_find_n(re: &regress::Regex, text: &str, start: usize, limit: usize, fuel: u64) -> Outcome<Vec<SMatch>> {
    run_guarded(fuel, || {
        let mut out = Vec::new();
        let mut it = re.find_from(text, start);
        while out.len() < limit {
            match it.next() {
                Some(m) => out.push(SMatch::from(&m)),
                None => break,
            }
        }
        out
    })
}

pub fn guarded<T>(fuel: u64, f: impl FnOnce() -> T) -> Outcome<T> {
    run_guarded(fuel, f)
}
