//! Reference parser: the ES2025 Pattern grammar (22.2.1) with Annex B.1.2 for patterns without
//! u / v, including the static-semantics early errors. Produces the AST or a SyntaxError.
//! Written as a plain recursive descent over code points; no error recovery, no cleverness.
use crate::ast::*;
use crate::props;

pub type PResult<T> = Result<T, String>;

struct P<'a> {
    s: &'a [u32],
    i: usize,
    u: bool,        // UnicodeMode
    v: bool,        // UnicodeSetsMode
    n: bool,        // NamedCaptureGroups
    ngroups: u32,   // CountLeftCapturingParensWithin(Pattern)
    /// bug-compatibility switch (known finding): \u{X..X} is a code point escape even without u / v
    compat_u_brace: bool,
    names: Vec<String>,
    depth: usize,
}

fn err<T>(m: &str) -> PResult<T> {
    Err(m.to_string())
}

fn is_syntax_char(c: u32) -> bool {
    matches!(char::from_u32(c), Some('^' | '$' | '\\' | '.' | '*' | '+' | '?' | '(' | ')' | '[' | ']' | '{' | '}' | '|'))
}
fn is_digit(c: u32) -> bool {
    (0x30..=0x39).contains(&c)
}
fn is_octal(c: u32) -> bool {
    (0x30..=0x37).contains(&c)
}
fn hexval(c: u32) -> Option<u32> {
    char::from_u32(c).and_then(|ch| ch.to_digit(16))
}
fn is_ascii_letter(c: u32) -> bool {
    matches!(c, 0x41..=0x5A | 0x61..=0x7A)
}

fn in_set(name: &str, c: u32) -> bool {
    match props::lookup(name, false) {
        Some(props::PropVal::Set(iv)) => iv.iter().any(|&(a, b)| a <= c && c <= b),
        _ => false,
    }
}
fn is_id_start(c: u32) -> bool {
    c == '$' as u32 || c == '_' as u32 || (c < 128 && is_ascii_letter(c)) || (c >= 128 && in_set("ID_Start", c))
}
fn is_id_part(c: u32) -> bool {
    c == '$' as u32 || c == 0x200C || c == 0x200D || (c < 128 && (is_ascii_letter(c) || is_digit(c) || c == '_' as u32)) || (c >= 128 && in_set("ID_Continue", c))
}

const RESERVED_DOUBLE: &str = "&!#$%*+,.:;<=>?@^`~";
const CLASS_SET_SYNTAX: &str = "()[]{}/-\\|";
const CLASS_SET_RESERVED_PUNCT: &str = "&-!#%,:;<=>@`~";

fn in_str(s: &str, c: u32) -> bool {
    char::from_u32(c).map(|ch| s.contains(ch)).unwrap_or(false)
}

impl<'a> P<'a> {
    fn peek(&self) -> Option<u32> {
        self.s.get(self.i).copied()
    }
    fn peek_at(&self, k: usize) -> Option<u32> {
        self.s.get(self.i + k).copied()
    }
    fn eat(&mut self, c: char) -> bool {
        if self.peek() == Some(c as u32) {
            self.i += 1;
            true
        } else {
            false
        }
    }
    fn looking_at(&self, t: &str) -> bool {
        t.chars().enumerate().all(|(k, ch)| self.peek_at(k) == Some(ch as u32))
    }
    fn eat_str(&mut self, t: &str) -> bool {
        if self.looking_at(t) {
            self.i += t.chars().count();
            true
        } else {
            false
        }
    }

    // ---- Disjunction / Alternative / Term
    fn disjunction(&mut self) -> PResult<Node> {
        self.depth += 1;
        if self.depth > 2000 {
            return err("too deep for the reference parser");
        }
        let mut alts = vec![self.alternative()?];
        while self.eat('|') {
            alts.push(self.alternative()?);
        }
        self.depth -= 1;
        Ok(if alts.len() == 1 { alts.pop().unwrap() } else { Node::Alt(alts) })
    }

    fn alternative(&mut self) -> PResult<Node> {
        let mut terms = Vec::new();
        loop {
            match self.peek() {
                None => break,
                Some(c) if c == '|' as u32 || c == ')' as u32 => break,
                _ => {}
            }
            terms.push(self.term()?);
        }
        Ok(match terms.len() {
            0 => Node::Empty,
            1 => terms.pop().unwrap(),
            _ => Node::Cat(terms),
        })
    }

    fn term(&mut self) -> PResult<Node> {
        let c = self.peek().unwrap();
        let ch = char::from_u32(c).unwrap_or('\u{FFFD}');
        // Assertions
        match ch {
            '^' => {
                self.i += 1;
                return self.no_quantifier(Node::AssertStart);
            }
            '$' => {
                self.i += 1;
                return self.no_quantifier(Node::AssertEnd);
            }
            '\\' if self.peek_at(1) == Some('b' as u32) => {
                self.i += 2;
                return self.no_quantifier(Node::WordB);
            }
            '\\' if self.peek_at(1) == Some('B' as u32) => {
                self.i += 2;
                return self.no_quantifier(Node::NotWordB);
            }
            '(' => {
                if self.looking_at("(?=") || self.looking_at("(?!") {
                    let neg = self.looking_at("(?!");
                    self.i += 3;
                    let d = self.disjunction()?;
                    if !self.eat(')') {
                        return err("unterminated group");
                    }
                    let node = Node::look(false, neg, d);
                    // QuantifiableAssertion only in Annex B (non-Unicode) mode
                    if self.u {
                        return self.no_quantifier(node);
                    }
                    return self.maybe_quantified(node);
                }
                if self.looking_at("(?<=") || self.looking_at("(?<!") {
                    let neg = self.looking_at("(?<!");
                    self.i += 4;
                    let d = self.disjunction()?;
                    if !self.eat(')') {
                        return err("unterminated group");
                    }
                    return self.no_quantifier(Node::look(true, neg, d));
                }
            }
            _ => {}
        }
        let atom = self.atom()?;
        self.maybe_quantified(atom)
    }

    fn no_quantifier(&mut self, n: Node) -> PResult<Node> {
        // an Assertion is a complete Term; a following quantifier has nothing to apply to
        if self.at_quantifier()? {
            return err("nothing to repeat");
        }
        Ok(n)
    }

    /// Is the input at something that parses as a Quantifier? ({ only if it is a well-formed braced
    /// quantifier; in Unicode mode a stray { is an error elsewhere.)
    fn at_quantifier(&mut self) -> PResult<bool> {
        match self.peek().and_then(char::from_u32) {
            Some('*') | Some('+') | Some('?') => Ok(true),
            Some('{') => Ok(self.braced_quantifier_at(self.i).is_some()),
            _ => Ok(false),
        }
    }

    /// Parse `{n}`, `{n,}`, `{n,m}` at position p; returns (min, max, end position).
    fn braced_quantifier_at(&self, p: usize) -> Option<(u64, Option<u64>, usize)> {
        let s = self.s;
        let mut i = p;
        if s.get(i) != Some(&('{' as u32)) {
            return None;
        }
        i += 1;
        let st = i;
        let mut min: u64 = 0;
        while i < s.len() && is_digit(s[i]) {
            min = min.saturating_mul(10).saturating_add((s[i] - 0x30) as u64);
            i += 1;
        }
        if i == st {
            return None;
        }
        let mut max = Some(min);
        if s.get(i) == Some(&(',' as u32)) {
            i += 1;
            let st2 = i;
            let mut m: u64 = 0;
            while i < s.len() && is_digit(s[i]) {
                m = m.saturating_mul(10).saturating_add((s[i] - 0x30) as u64);
                i += 1;
            }
            max = if i == st2 { None } else { Some(m) };
        }
        if s.get(i) != Some(&('}' as u32)) {
            return None;
        }
        Some((min, max, i + 1))
    }

    fn maybe_quantified(&mut self, atom: Node) -> PResult<Node> {
        let (min, max) = match self.peek().and_then(char::from_u32) {
            Some('*') => {
                self.i += 1;
                (0, None)
            }
            Some('+') => {
                self.i += 1;
                (1, None)
            }
            Some('?') => {
                self.i += 1;
                (0, Some(1))
            }
            Some('{') => match self.braced_quantifier_at(self.i) {
                Some((a, b, end)) => {
                    self.i = end;
                    if let Some(b) = b {
                        if a > b {
                            return err("numbers out of order in {} quantifier");
                        }
                    }
                    (a, b)
                }
                None => {
                    if self.u {
                        return err("incomplete quantifier");
                    }
                    return Ok(atom);
                }
            },
            _ => return Ok(atom),
        };
        let greedy = !self.eat('?');
        let clamp = |x: u64| -> u32 { x.min(u32::MAX as u64) as u32 };
        Ok(Node::Quant { body: Box::new(atom), min: clamp(min), max: max.map(clamp), greedy })
    }

    fn atom(&mut self) -> PResult<Node> {
        let c = self.peek().unwrap();
        let ch = char::from_u32(c).unwrap_or('\u{FFFD}');
        match ch {
            '.' => {
                self.i += 1;
                Ok(Node::Dot)
            }
            '*' | '+' | '?' => err("nothing to repeat"),
            '(' => self.group(),
            ')' => err("unmatched )"),
            '|' => unreachable!(),
            '[' => self.class(),
            '\\' => self.atom_escape(),
            '{' => {
                if self.u {
                    return err("lone quantifier bracket");
                }
                // Annex B: InvalidBracedQuantifier is an early error, otherwise { is a pattern character
                if self.braced_quantifier_at(self.i).is_some() {
                    return err("nothing to repeat");
                }
                self.i += 1;
                Ok(Node::Char(c))
            }
            '}' | ']' => {
                if self.u {
                    return err("lone quantifier bracket");
                }
                self.i += 1;
                Ok(Node::Char(c))
            }
            _ => {
                self.i += 1;
                Ok(Node::Char(c))
            }
        }
    }

    fn group(&mut self) -> PResult<Node> {
        // at '('
        if self.eat_str("(?:") {
            let d = self.disjunction()?;
            if !self.eat(')') {
                return err("unterminated group");
            }
            return Ok(Node::NonCap(Box::new(d)));
        }
        if self.looking_at("(?<") {
            // named group (lookbehinds were handled in term)
            self.i += 2;
            let name = self.group_name()?;
            let d = self.disjunction()?;
            if !self.eat(')') {
                return err("unterminated group");
            }
            return Ok(Node::Group(Box::new(d), Some(name)));
        }
        if self.looking_at("(?") {
            // modifiers
            self.i += 2;
            let mut on = Flags::default();
            let mut off = Flags::default();
            let mut seen_dash = false;
            loop {
                let Some(c) = self.peek() else { return err("invalid group") };
                self.i += 1;
                match char::from_u32(c) {
                    Some(f @ ('i' | 'm' | 's')) => {
                        let tgt = if seen_dash { &mut off } else { &mut on };
                        let slot = match f {
                            'i' => &mut tgt.i,
                            'm' => &mut tgt.m,
                            _ => &mut tgt.s,
                        };
                        if *slot {
                            return err("repeated flag in modifiers");
                        }
                        *slot = true;
                    }
                    Some('-') => {
                        if seen_dash {
                            return err("multiple dashes in flag group");
                        }
                        seen_dash = true;
                    }
                    Some(':') => break,
                    _ => return err("invalid group"),
                }
            }
            if (on.i && off.i) || (on.m && off.m) || (on.s && off.s) {
                return err("repeated flag in modifiers");
            }
            if seen_dash && !(on.i || on.m || on.s || off.i || off.m || off.s) {
                return err("empty modifiers");
            }
            if !seen_dash && !(on.i || on.m || on.s) {
                return err("invalid group");
            }
            let d = self.disjunction()?;
            if !self.eat(')') {
                return err("unterminated group");
            }
            return Ok(Node::Mods { on, off, body: Box::new(d) });
        }
        self.i += 1;
        let d = self.disjunction()?;
        if !self.eat(')') {
            return err("unterminated group");
        }
        Ok(Node::Group(Box::new(d), None))
    }

    /// GroupName :: < RegExpIdentifierName >   (at '<')
    fn group_name(&mut self) -> PResult<String> {
        if !self.eat('<') {
            return err("invalid capture group name");
        }
        let mut name = String::new();
        let mut first = true;
        loop {
            let Some(mut c) = self.peek() else { return err("invalid capture group name") };
            self.i += 1;
            if c == '>' as u32 && !first {
                break;
            }
            if c == '\\' as u32 {
                // \ RegExpUnicodeEscapeSequence[+UnicodeMode]
                if !self.eat('u') {
                    return err("invalid capture group name");
                }
                c = self.unicode_escape_body(true)?.ok_or("invalid unicode escape in group name")?;
            } else if (0xD800..=0xDBFF).contains(&c) {
                // a literal surrogate pair in the source (possible when the pattern is given as UTF-16 code units)
                if let Some(lo) = self.peek() {
                    if (0xDC00..=0xDFFF).contains(&lo) {
                        self.i += 1;
                        c = 0x10000 + ((c - 0xD800) << 10) + (lo - 0xDC00);
                    }
                }
            }
            let ok = if first { is_id_start(c) } else { is_id_part(c) };
            if !ok {
                return err("invalid capture group name");
            }
            match char::from_u32(c) {
                Some(ch) => name.push(ch),
                None => return err("invalid capture group name"),
            }
            first = false;
        }
        Ok(name)
    }

    /// After `\u`: parses the rest of a RegExpUnicodeEscapeSequence. `unicode` selects the +U
    /// productions. Returns Ok(None) when nothing matches (position restored).
    fn unicode_escape_body(&mut self, unicode: bool) -> PResult<Option<u32>> {
        let save = self.i;
        if !unicode && self.compat_u_brace && self.peek() == Some('{' as u32) {
            // the subject's reading in legacy mode: a well-formed \u{hex} is the code point, anything
            // else falls back to the identity escape
            let mut j = self.i + 1;
            let mut val: u32 = 0;
            let mut n = 0;
            while let Some(h) = self.s.get(j).copied().and_then(hexval) {
                val = val.saturating_mul(16).saturating_add(h);
                j += 1;
                n += 1;
            }
            if n > 0 && val <= 0x10FFFF && self.s.get(j) == Some(&('}' as u32)) {
                self.i = j + 1;
                return Ok(Some(val));
            }
            return Ok(None);
        }
        if unicode && self.eat('{') {
            let mut val: u32 = 0;
            let mut n = 0;
            while let Some(h) = self.peek().and_then(hexval) {
                val = val.saturating_mul(16).saturating_add(h);
                if val > 0x10FFFF {
                    return err("undefined unicode code point");
                }
                self.i += 1;
                n += 1;
            }
            if n == 0 || !self.eat('}') {
                return err("invalid unicode escape");
            }
            return Ok(Some(val));
        }
        let hex4 = |p: &Self, at: usize| -> Option<u32> {
            let mut v = 0;
            for k in 0..4 {
                v = v * 16 + p.s.get(at + k).copied().and_then(hexval)?;
            }
            Some(v)
        };
        match hex4(self, self.i) {
            Some(v) => {
                self.i += 4;
                if unicode && (0xD800..=0xDBFF).contains(&v) && self.peek() == Some('\\' as u32) && self.peek_at(1) == Some('u' as u32) {
                    if let Some(lo) = hex4(self, self.i + 2) {
                        if (0xDC00..=0xDFFF).contains(&lo) {
                            self.i += 6;
                            return Ok(Some(0x10000 + ((v - 0xD800) << 10) + (lo - 0xDC00)));
                        }
                    }
                }
                Ok(Some(v))
            }
            None => {
                self.i = save;
                Ok(None)
            }
        }
    }

    // ---- escapes
    fn atom_escape(&mut self) -> PResult<Node> {
        // at '\'
        self.i += 1;
        let Some(c) = self.peek() else { return err("\\ at end of pattern") };
        let ch = char::from_u32(c).unwrap_or('\u{FFFD}');
        // DecimalEscape
        if ('1'..='9').contains(&ch) {
            let st = self.i;
            let mut val: u64 = 0;
            while let Some(d) = self.peek().filter(|&d| is_digit(d)) {
                val = val.saturating_mul(10).saturating_add((d - 0x30) as u64);
                self.i += 1;
            }
            if val <= self.ngroups as u64 {
                return Ok(Node::BackRef(val as u32));
            }
            if self.u {
                return err("invalid escape (group reference out of range)");
            }
            self.i = st; // Annex B: legacy octal or identity escape
        }
        if let Some(k) = self.class_escape_kind(c) {
            self.i += 1;
            return Ok(Node::Esc(k));
        }
        if (ch == 'p' || ch == 'P') && self.u {
            self.i += 1;
            let name = self.property_expr()?;
            self.check_property(&name, ch == 'P')?;
            return Ok(Node::Prop(ch == 'P', name));
        }
        if ch == 'k' && self.n {
            self.i += 1;
            if self.peek() != Some('<' as u32) {
                return err("invalid named reference");
            }
            let name = self.group_name().map_err(|_| "invalid named reference".to_string())?;
            if !self.names.contains(&name) {
                return err("invalid named capture referenced");
            }
            return Ok(Node::NamedRef(name));
        }
        if ch == 'c' && !self.u && !self.peek_at(1).map(is_ascii_letter).unwrap_or(false) {
            // Annex B: \ [lookahead = c] matches a backslash; the c is parsed next
            return Ok(Node::Char('\\' as u32));
        }
        let v = self.character_escape(false)?;
        Ok(Node::Char(v))
    }

    fn class_escape_kind(&self, c: u32) -> Option<EscKind> {
        Some(match char::from_u32(c)? {
            'd' => EscKind::Digit,
            'D' => EscKind::NotDigit,
            's' => EscKind::Space,
            'S' => EscKind::NotSpace,
            'w' => EscKind::Word,
            'W' => EscKind::NotWord,
            _ => return None,
        })
    }

    fn property_expr(&mut self) -> PResult<String> {
        if !self.eat('{') {
            return err("invalid property name");
        }
        let mut s = String::new();
        loop {
            let Some(c) = self.peek() else { return err("invalid property name") };
            self.i += 1;
            let ch = char::from_u32(c).unwrap_or('\u{FFFD}');
            if ch == '}' {
                break;
            }
            if ch.is_ascii_alphanumeric() || ch == '_' || ch == '=' {
                s.push(ch);
            } else {
                return err("invalid property name");
            }
        }
        Ok(s)
    }

    fn check_property(&self, expr: &str, negated: bool) -> PResult<()> {
        match props::lookup(expr, self.v) {
            Some(props::PropVal::Set(_)) => Ok(()),
            Some(props::PropVal::Strings(_)) => {
                if negated {
                    err("negated property of strings")
                } else {
                    Ok(())
                }
            }
            None => err("invalid property name"),
        }
    }

    /// CharacterEscape (after the backslash). `in_class` only changes nothing here; kept for clarity.
    fn character_escape(&mut self, _in_class: bool) -> PResult<u32> {
        let c = self.peek().unwrap();
        let ch = char::from_u32(c).unwrap_or('\u{FFFD}');
        self.i += 1;
        match ch {
            'f' => return Ok(0x0C),
            'n' => return Ok(0x0A),
            'r' => return Ok(0x0D),
            't' => return Ok(0x09),
            'v' => return Ok(0x0B),
            'c' => {
                if let Some(l) = self.peek().filter(|&l| is_ascii_letter(l)) {
                    self.i += 1;
                    return Ok(l % 32);
                }
                if self.u {
                    return err("invalid unicode escape");
                }
                // Annex B callers handle \c without a letter before getting here
                return err("invalid \\c");
            }
            '0' => {
                if !self.peek().map(is_digit).unwrap_or(false) {
                    return Ok(0);
                }
                if self.u {
                    return err("invalid decimal escape");
                }
                // legacy octal starting with 0
                self.i -= 1;
                return self.legacy_octal();
            }
            '1'..='7' if !self.u => {
                self.i -= 1;
                return self.legacy_octal();
            }
            'x' => {
                if let (Some(a), Some(b)) = (self.peek().and_then(hexval), self.peek_at(1).and_then(hexval)) {
                    self.i += 2;
                    return Ok(a * 16 + b);
                }
                if self.u {
                    return err("invalid escape");
                }
                return Ok(c);
            }
            'u' => {
                if let Some(v) = self.unicode_escape_body(self.u)? {
                    return Ok(v);
                }
                if self.u {
                    return err("invalid unicode escape");
                }
                return Ok(c);
            }
            _ => {}
        }
        // IdentityEscape
        if self.u {
            if is_syntax_char(c) || ch == '/' {
                return Ok(c);
            }
            return err("invalid escape");
        }
        // Annex B SourceCharacterIdentityEscape[?N]: not c; not k when N
        if ch == 'k' && self.n {
            return err("invalid named reference");
        }
        Ok(c)
    }

    fn legacy_octal(&mut self) -> PResult<u32> {
        // at the first octal digit
        let d0 = self.peek().unwrap() - 0x30;
        self.i += 1;
        let d1 = self.peek().filter(|&d| is_octal(d)).map(|d| d - 0x30);
        if d0 == 0 {
            // 0 [lookahead in {8,9}] is handled by "not octal" below as well
        }
        match d1 {
            None => Ok(d0),
            Some(d1) => {
                if d0 >= 4 {
                    self.i += 1;
                    return Ok(d0 * 8 + d1);
                }
                self.i += 1;
                if let Some(d2) = self.peek().filter(|&d| is_octal(d)).map(|d| d - 0x30) {
                    self.i += 1;
                    Ok(d0 * 64 + d1 * 8 + d2)
                } else {
                    Ok(d0 * 8 + d1)
                }
            }
        }
    }

    // ---- classes
    fn class(&mut self) -> PResult<Node> {
        // at '['
        if self.v {
            let vc = self.vclass()?;
            return Ok(Node::VClass(vc));
        }
        self.i += 1;
        let negated = self.eat('^');
        let mut items: Vec<ClassItem> = Vec::new();
        loop {
            let Some(c) = self.peek() else { return err("unterminated character class") };
            if c == ']' as u32 {
                self.i += 1;
                break;
            }
            let a = self.class_atom()?;
            if self.peek() == Some('-' as u32) && self.peek_at(1).is_some() && self.peek_at(1) != Some(']' as u32) {
                // ClassAtom - ClassAtom
                self.i += 1;
                let b = self.class_atom()?;
                match (&a, &b) {
                    (ClassItem::Single(x), ClassItem::Single(y)) => {
                        if x > y {
                            return err("range out of order in character class");
                        }
                        items.push(ClassItem::Range(*x, *y));
                    }
                    _ => {
                        if self.u {
                            return err("invalid character class (class escape in range)");
                        }
                        items.push(a);
                        items.push(ClassItem::Single('-' as u32));
                        items.push(b);
                    }
                }
            } else {
                items.push(a);
            }
        }
        Ok(Node::Class { negated, items })
    }

    fn class_atom(&mut self) -> PResult<ClassItem> {
        let c = self.peek().ok_or("unterminated character class")?;
        if c != '\\' as u32 {
            self.i += 1;
            return Ok(ClassItem::Single(c));
        }
        self.i += 1;
        let Some(e) = self.peek() else { return err("\\ at end of pattern") };
        let ech = char::from_u32(e).unwrap_or('\u{FFFD}');
        if ech == 'b' {
            self.i += 1;
            return Ok(ClassItem::Single(8));
        }
        if ech == '-' && self.u {
            self.i += 1;
            return Ok(ClassItem::Single('-' as u32));
        }
        if let Some(k) = self.class_escape_kind(e) {
            self.i += 1;
            return Ok(ClassItem::Esc(k));
        }
        if (ech == 'p' || ech == 'P') && self.u {
            self.i += 1;
            let name = self.property_expr()?;
            match props::lookup(&name, false) {
                Some(props::PropVal::Set(_)) => {}
                _ => return err("invalid property name in character class"),
            }
            return Ok(ClassItem::Prop(ech == 'P', name));
        }
        if ech == 'c' && !self.u {
            // Annex B: c ClassControlLetter (digit or _), c AsciiLetter, else the backslash is literal
            if let Some(l) = self.peek_at(1) {
                if is_digit(l) || l == '_' as u32 || is_ascii_letter(l) {
                    self.i += 2;
                    return Ok(ClassItem::Single(l % 32));
                }
            }
            return Ok(ClassItem::Single('\\' as u32));
        }
        if self.u && ('1'..='9').contains(&ech) {
            return err("invalid class escape");
        }
        if !self.u && ('8'..='9').contains(&ech) {
            self.i += 1;
            return Ok(ClassItem::Single(e));
        }
        let v = self.character_escape(true)?;
        Ok(ClassItem::Single(v))
    }

    // ---- v-mode class sets
    fn vclass(&mut self) -> PResult<VClass> {
        self.depth += 1;
        if self.depth > 2000 {
            return err("too deep for the reference parser");
        }
        // at '['
        self.i += 1;
        let negated = self.eat('^');
        let mut operands: Vec<VOperand> = Vec::new();
        let mut op = VOp::Union;
        if self.eat(']') {
            self.depth -= 1;
            return Ok(VClass { negated, op, operands });
        }
        // first operand (or range)
        let first = self.voperand()?;
        if self.looking_at("&&") {
            op = VOp::Inter;
            operands.push(first);
            loop {
                if !self.eat_str("&&") {
                    return err("invalid set operation in character class");
                }
                if self.peek() == Some('&' as u32) {
                    return err("invalid set operation in character class (&&&)");
                }
                let o = self.voperand()?;
                operands.push(o);
                if self.eat(']') {
                    break;
                }
                if self.peek().is_none() {
                    return err("unterminated character class");
                }
            }
        } else if self.looking_at("--") {
            op = VOp::Sub;
            operands.push(first);
            loop {
                if !self.eat_str("--") {
                    return err("invalid set operation in character class");
                }
                let o = self.voperand()?;
                operands.push(o);
                if self.eat(']') {
                    break;
                }
                if self.peek().is_none() {
                    return err("unterminated character class");
                }
            }
        } else {
            // ClassUnion
            let mut cur = Some(first);
            loop {
                let o = match cur.take() {
                    Some(o) => o,
                    None => {
                        if self.eat(']') {
                            break;
                        }
                        if self.peek().is_none() {
                            return err("unterminated character class");
                        }
                        if self.looking_at("&&") || self.looking_at("--") {
                            return err("invalid set operation in character class (mixed with union)");
                        }
                        self.voperand()?
                    }
                };
                // range?
                if let VOperand::Char(a) = o {
                    if self.peek() == Some('-' as u32) && self.peek_at(1) != Some('-' as u32) {
                        self.i += 1;
                        match self.voperand()? {
                            VOperand::Char(b) => {
                                if a > b {
                                    return err("range out of order in character class");
                                }
                                operands.push(VOperand::Range(a, b));
                                continue;
                            }
                            _ => return err("invalid character class range"),
                        }
                    }
                }
                if self.peek() == Some('-' as u32) && self.peek_at(1) != Some('-' as u32) {
                    return err("invalid character in character class (-)");
                }
                operands.push(o);
            }
        }
        let vc = VClass { negated, op, operands };
        if negated && may_contain_strings(&vc, true) {
            return err("negated character class may contain strings");
        }
        self.depth -= 1;
        Ok(vc)
    }

    fn voperand(&mut self) -> PResult<VOperand> {
        let Some(c) = self.peek() else { return err("unterminated character class") };
        let ch = char::from_u32(c).unwrap_or('\u{FFFD}');
        if ch == '[' {
            let n = self.vclass()?;
            return Ok(VOperand::Nested(Box::new(n)));
        }
        if ch == '\\' {
            let Some(e) = self.peek_at(1) else { return err("\\ at end of pattern") };
            let ech = char::from_u32(e).unwrap_or('\u{FFFD}');
            if let Some(k) = self.class_escape_kind(e) {
                self.i += 2;
                return Ok(VOperand::Esc(k));
            }
            if ech == 'p' || ech == 'P' {
                self.i += 2;
                let name = self.property_expr()?;
                self.check_property(&name, ech == 'P')?;
                return Ok(VOperand::Prop(ech == 'P', name));
            }
            if ech == 'q' {
                self.i += 2;
                if !self.eat('{') {
                    return err("invalid escape");
                }
                let mut strings: Vec<Vec<u32>> = Vec::new();
                let mut cur: Vec<u32> = Vec::new();
                loop {
                    let Some(c) = self.peek() else { return err("unterminated \\q") };
                    if c == '}' as u32 {
                        self.i += 1;
                        strings.push(cur);
                        break;
                    }
                    if c == '|' as u32 {
                        self.i += 1;
                        strings.push(std::mem::take(&mut cur));
                        continue;
                    }
                    cur.push(self.class_set_character()?);
                }
                return Ok(VOperand::QStrings(strings));
            }
        }
        Ok(VOperand::Char(self.class_set_character()?))
    }

    fn class_set_character(&mut self) -> PResult<u32> {
        let Some(c) = self.peek() else { return err("unterminated character class") };
        if c == '\\' as u32 {
            let Some(e) = self.peek_at(1) else { return err("\\ at end of pattern") };
            if e == 'b' as u32 {
                self.i += 2;
                return Ok(8);
            }
            if in_str(CLASS_SET_RESERVED_PUNCT, e) {
                self.i += 2;
                return Ok(e);
            }
            self.i += 1;
            // CharacterEscape[+UnicodeMode]
            let ech = char::from_u32(e).unwrap_or('\u{FFFD}');
            if ('1'..='9').contains(&ech) || ech == 'k' {
                return err("invalid escape");
            }
            return self.character_escape(true);
        }
        if in_str(CLASS_SET_SYNTAX, c) {
            return err("invalid character in character class");
        }
        if in_str(RESERVED_DOUBLE, c) && self.peek_at(1) == Some(c) {
            return err("invalid set operation in character class (reserved double punctuator)");
        }
        self.i += 1;
        Ok(c)
    }
}

/// MayContainStrings of a class's contents (the class's own negation is checked by the caller).
fn may_contain_strings(vc: &VClass, top: bool) -> bool {
    let _ = top;
    let operand_may = |o: &VOperand| -> bool {
        match o {
            VOperand::QStrings(v) => v.iter().any(|s| s.len() != 1),
            VOperand::Prop(_, name) => matches!(props::lookup(name, true), Some(props::PropVal::Strings(_))),
            VOperand::Nested(n) => !n.negated && may_contain_strings(n, false),
            _ => false,
        }
    };
    match vc.op {
        VOp::Union => vc.operands.iter().any(operand_may),
        VOp::Inter => vc.operands.iter().all(operand_may),
        VOp::Sub => vc.operands.first().map(operand_may).unwrap_or(false),
    }
}

/// Pre-scan: count capturing groups and collect group names, skipping escapes and classes, exactly
/// enough to evaluate CountLeftCapturingParensWithin and "the pattern contains a GroupName".
fn prescan(s: &[u32], v: bool) -> (u32, bool) {
    let mut i = 0;
    let mut groups = 0;
    let mut has_name = false;
    while i < s.len() {
        let c = s[i];
        if c == '\\' as u32 {
            i += 2;
            continue;
        }
        if c == '[' as u32 {
            // skip class (nested in v mode)
            let mut depth = 1;
            i += 1;
            while i < s.len() && depth > 0 {
                if s[i] == '\\' as u32 {
                    i += 2;
                    continue;
                }
                if s[i] == '[' as u32 && v {
                    depth += 1;
                } else if s[i] == ']' as u32 {
                    depth -= 1;
                }
                i += 1;
            }
            continue;
        }
        if c == '(' as u32 {
            if s.get(i + 1) == Some(&('?' as u32)) {
                if s.get(i + 2) == Some(&('<' as u32)) && s.get(i + 3) != Some(&('=' as u32)) && s.get(i + 3) != Some(&('!' as u32)) {
                    groups += 1;
                    has_name = true;
                }
            } else {
                groups += 1;
            }
        }
        i += 1;
    }
    (groups, has_name)
}

fn collect_names(n: &Node, out: &mut Vec<String>) {
    let mut v = Vec::new();
    n.group_names(&mut v);
    for x in v.into_iter().flatten() {
        out.push(x);
    }
}

fn parse_with(s: &[u32], flags: Flags, n: bool, names: Vec<String>, compat: Compat) -> PResult<Node> {
    let (ngroups, _) = prescan(s, flags.v);
    let mut p = P { s, i: 0, u: flags.u || flags.v, v: flags.v, n, ngroups, names, depth: 0, compat_u_brace: compat.legacy_u_brace };
    let d = p.disjunction()?;
    if p.i != s.len() {
        return err("unmatched )");
    }
    Ok(d)
}

/// Parse `pattern` under `flags`. u and v together are a SyntaxError in ES (flags, not pattern); the
/// subject has no such notion, so callers do not combine them.
pub fn parse(s: &[u32], flags: Flags) -> PResult<Node> {
    parse_compat(s, flags, Compat::default())
}

/// Bug-compatibility switches: each reproduces exactly one recorded known finding, so that a
/// disagreement can be attributed to it (and to nothing else).
#[derive(Clone, Copy, Default, Debug)]
pub struct Compat {
    pub legacy_u_brace: bool,
}

pub fn parse_compat(s: &[u32], flags: Flags, compat: Compat) -> PResult<Node> {
    let um = flags.u || flags.v;
    let (_, has_name) = prescan(s, flags.v);
    let n = um || has_name;
    // Names must be known before \k is met, so parse twice: once tolerating unknown names to collect
    // them, then for real.
    let names = if n {
        let mut names = Vec::new();
        // first pass with every \k<...> accepted: temporarily treat all names as known by collecting
        // the GroupNames lexically
        let mut i = 0;
        while i < s.len() {
            if s[i] == '\\' as u32 {
                i += 2;
                continue;
            }
            if s[i] == '(' as u32 && s.get(i + 1) == Some(&('?' as u32)) && s.get(i + 2) == Some(&('<' as u32)) && s.get(i + 3) != Some(&('=' as u32)) && s.get(i + 3) != Some(&('!' as u32)) {
                let mut p = P { s, i: i + 2, u: um, v: flags.v, n: true, ngroups: 0, names: vec![], depth: 0, compat_u_brace: false };
                if let Ok(name) = p.group_name() {
                    names.push(name);
                }
            }
            i += 1;
        }
        names
    } else {
        Vec::new()
    };
    let ast = parse_with(s, flags, n, names, compat)?;
    // early errors on the tree: duplicate names (MightBothParticipate)
    let mut all = Vec::new();
    collect_names(&ast, &mut all);
    if let Err(e) = dup_check(&ast) {
        return Err(e.to_string());
    }
    Ok(ast)
}

fn dup_check(n: &Node) -> Result<Vec<String>, &'static str> {
    match n {
        Node::Group(b, name) => {
            let mut v = dup_check(b)?;
            if let Some(nm) = name {
                if v.contains(nm) {
                    return Err("duplicate capture group name");
                }
                v.push(nm.clone());
            }
            Ok(v)
        }
        Node::NonCap(b) | Node::Mods { body: b, .. } | Node::Look { body: b, .. } | Node::Quant { body: b, .. } => dup_check(b),
        Node::Cat(v) => {
            let mut all: Vec<String> = Vec::new();
            for c in v {
                for nm in dup_check(c)? {
                    if all.contains(&nm) {
                        return Err("duplicate capture group name");
                    }
                    all.push(nm);
                }
            }
            Ok(all)
        }
        Node::Alt(v) => {
            let mut all: Vec<String> = Vec::new();
            for c in v {
                for nm in dup_check(c)? {
                    if !all.contains(&nm) {
                        all.push(nm);
                    }
                }
            }
            Ok(all)
        }
        _ => Ok(Vec::new()),
    }
}
