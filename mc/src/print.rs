//! AST -> pattern source (as code points, so lone surrogates can be carried).
use crate::ast::*;

fn push_str(out: &mut Vec<u32>, s: &str) {
    out.extend(s.chars().map(|c| c as u32));
}

pub fn is_syntax_char(c: u32) -> bool {
    matches!(
        char::from_u32(c),
        Some('^' | '$' | '\\' | '.' | '*' | '+' | '?' | '(' | ')' | '[' | ']' | '{' | '}' | '|' | '/')
    )
}

fn push_char(out: &mut Vec<u32>, c: u32) {
    if is_syntax_char(c) {
        out.push('\\' as u32);
        out.push(c);
    } else if c == 0x0A {
        push_str(out, "\\n");
    } else if c == 0x0D {
        push_str(out, "\\r");
    } else if c == 0x2028 || c == 0x2029 {
        push_str(out, &format!("\\u{:04X}", c));
    } else {
        out.push(c);
    }
}

fn push_class_char(out: &mut Vec<u32>, c: u32, vmode: bool) {
    let ch = char::from_u32(c);
    let special = if vmode {
        matches!(
            ch,
            Some(
                '(' | ')' | '[' | ']' | '{' | '}' | '/' | '-' | '\\' | '|' | '&' | '!' | '#' | '$' | '%' | '*' | '+' | ','
                    | '.' | ':' | ';' | '<' | '=' | '>' | '?' | '@' | '^' | '`' | '~'
            )
        )
    } else {
        matches!(ch, Some('\\' | ']' | '[' | '^' | '-'))
    };
    if special {
        // In v mode only ClassSetReservedPunctuator and syntax characters have identity escapes.
        out.push('\\' as u32);
        out.push(c);
    } else if c == 0x0A {
        push_str(out, "\\n");
    } else if c == 0x0D {
        push_str(out, "\\r");
    } else if c == 0x2028 || c == 0x2029 {
        push_str(out, &format!("\\u{:04X}", c));
    } else {
        out.push(c);
    }
}

fn esc_str(k: EscKind) -> &'static str {
    match k {
        EscKind::Digit => "\\d",
        EscKind::NotDigit => "\\D",
        EscKind::Word => "\\w",
        EscKind::NotWord => "\\W",
        EscKind::Space => "\\s",
        EscKind::NotSpace => "\\S",
    }
}

fn push_prop(out: &mut Vec<u32>, neg: bool, name: &str) {
    push_str(out, if neg { "\\P{" } else { "\\p{" });
    push_str(out, name);
    push_str(out, "}");
}

pub fn print_vclass(out: &mut Vec<u32>, vc: &VClass) {
    out.push('[' as u32);
    if vc.negated {
        out.push('^' as u32);
    }
    let sep = match vc.op {
        VOp::Union => "",
        VOp::Inter => "&&",
        VOp::Sub => "--",
    };
    for (i, o) in vc.operands.iter().enumerate() {
        if i > 0 {
            push_str(out, sep);
        }
        match o {
            VOperand::Char(c) => push_class_char(out, *c, true),
            VOperand::Range(a, b) => {
                push_class_char(out, *a, true);
                out.push('-' as u32);
                push_class_char(out, *b, true);
            }
            VOperand::Esc(k) => push_str(out, esc_str(*k)),
            VOperand::Prop(n, s) => push_prop(out, *n, s),
            VOperand::QStrings(v) => {
                push_str(out, "\\q{");
                for (j, s) in v.iter().enumerate() {
                    if j > 0 {
                        out.push('|' as u32);
                    }
                    for &c in s {
                        push_class_char(out, c, true);
                    }
                }
                out.push('}' as u32);
            }
            VOperand::Nested(n) => print_vclass(out, n),
        }
    }
    out.push(']' as u32);
}

#[derive(Clone, Copy, PartialEq)]
enum Ctx {
    Top,
    CatElem,
    QuantBody,
}

fn pr(out: &mut Vec<u32>, n: &Node, ctx: Ctx, next_is_digit: bool) {
    match n {
        Node::Empty => {
            if ctx == Ctx::QuantBody {
                push_str(out, "(?:)");
            }
        }
        Node::Char(c) => push_char(out, *c),
        Node::Lit(v) => {
            let wrap = ctx == Ctx::QuantBody && v.len() != 1;
            if wrap {
                push_str(out, "(?:");
            }
            for &c in v {
                push_char(out, c);
            }
            if wrap {
                out.push(')' as u32);
            }
        }
        Node::Dot => out.push('.' as u32),
        Node::Class { negated, items } => {
            out.push('[' as u32);
            if *negated {
                out.push('^' as u32);
            }
            for it in items {
                match it {
                    ClassItem::Single(c) => push_class_char(out, *c, false),
                    ClassItem::Range(a, b) => {
                        push_class_char(out, *a, false);
                        out.push('-' as u32);
                        push_class_char(out, *b, false);
                    }
                    ClassItem::Esc(k) => push_str(out, esc_str(*k)),
                    ClassItem::Prop(n, s) => push_prop(out, *n, s),
                }
            }
            out.push(']' as u32);
        }
        Node::VClass(vc) => print_vclass(out, vc),
        Node::Esc(k) => push_str(out, esc_str(*k)),
        Node::Prop(neg, s) => push_prop(out, *neg, s),
        Node::BackRef(k) => {
            if next_is_digit {
                push_str(out, &format!("(?:\\{})", k));
            } else {
                push_str(out, &format!("\\{}", k));
            }
        }
        Node::NamedRef(s) => {
            push_str(out, "\\k<");
            push_str(out, s);
            out.push('>' as u32);
        }
        Node::AssertStart => out.push('^' as u32),
        Node::AssertEnd => out.push('$' as u32),
        Node::WordB => push_str(out, "\\b"),
        Node::NotWordB => push_str(out, "\\B"),
        Node::Group(b, name) => {
            out.push('(' as u32);
            if let Some(nm) = name {
                push_str(out, "?<");
                push_str(out, nm);
                out.push('>' as u32);
            }
            pr(out, b, Ctx::Top, false);
            out.push(')' as u32);
        }
        Node::NonCap(b) => {
            push_str(out, "(?:");
            pr(out, b, Ctx::Top, false);
            out.push(')' as u32);
        }
        Node::Mods { on, off, body } => {
            push_str(out, "(?");
            push_str(out, &on.to_string());
            if off.i || off.m || off.s {
                out.push('-' as u32);
                push_str(out, &off.to_string());
            }
            out.push(':' as u32);
            pr(out, body, Ctx::Top, false);
            out.push(')' as u32);
        }
        Node::Look { behind, neg, body } => {
            push_str(
                out,
                match (behind, neg) {
                    (false, false) => "(?=",
                    (false, true) => "(?!",
                    (true, false) => "(?<=",
                    (true, true) => "(?<!",
                },
            );
            pr(out, body, Ctx::Top, false);
            out.push(')' as u32);
        }
        Node::Quant { body, min, max, greedy } => {
            if ctx == Ctx::QuantBody {
                push_str(out, "(?:");
            }
            pr(out, body, Ctx::QuantBody, false);
            match (min, max) {
                (0, None) => out.push('*' as u32),
                (1, None) => out.push('+' as u32),
                (0, Some(1)) => out.push('?' as u32),
                (a, None) => push_str(out, &format!("{{{},}}", a)),
                (a, Some(b)) if a == b => push_str(out, &format!("{{{}}}", a)),
                (a, Some(b)) => push_str(out, &format!("{{{},{}}}", a, b)),
            }
            if !greedy {
                out.push('?' as u32);
            }
            if ctx == Ctx::QuantBody {
                out.push(')' as u32);
            }
        }
        Node::Cat(v) => {
            let wrap = ctx == Ctx::QuantBody;
            if wrap {
                push_str(out, "(?:");
            }
            for (i, c) in v.iter().enumerate() {
                let nd = match v.get(i + 1) {
                    Some(Node::Char(d)) => (0x30..=0x39).contains(d),
                    _ => false,
                };
                pr(out, c, Ctx::CatElem, nd);
            }
            if wrap {
                out.push(')' as u32);
            }
        }
        Node::Alt(v) => {
            let wrap = ctx != Ctx::Top;
            if wrap {
                push_str(out, "(?:");
            }
            for (i, c) in v.iter().enumerate() {
                if i > 0 {
                    out.push('|' as u32);
                }
                pr(out, c, Ctx::Top, false);
            }
            if wrap {
                out.push(')' as u32);
            }
        }
    }
}

pub fn print(n: &Node) -> Vec<u32> {
    let mut out = Vec::new();
    pr(&mut out, n, Ctx::Top, false);
    out
}

/// Render code points for humans / JSON (lone surrogates and controls as \u{..}).
pub fn show(cps: &[u32]) -> String {
    let mut s = String::new();
    for &c in cps {
        match char::from_u32(c) {
            Some(ch) if !ch.is_control() && c != 0x2028 && c != 0x2029 => s.push(ch),
            _ => s.push_str(&format!("\\u{{{:X}}}", c)),
        }
    }
    s
}

pub fn print_string(n: &Node) -> String {
    show(&print(n))
}
