//! Abstract syntax of ECMAScript regular expressions, as used by the enumerators,
//! the printer, the reference parser and the reference matcher.

#[derive(Clone, Copy, Debug, PartialEq, Eq, Hash, Default, PartialOrd, Ord)]
pub struct Flags {
    pub i: bool,
    pub m: bool,
    pub s: bool,
    pub u: bool,
    pub v: bool,
}

impl Flags {
    pub fn parse(s: &str) -> Flags {
        let mut f = Flags::default();
        for c in s.chars() {
            match c {
                'i' => f.i = true,
                'm' => f.m = true,
                's' => f.s = true,
                'u' => f.u = true,
                'v' => f.v = true,
                _ => {}
            }
        }
        f
    }
    pub fn to_string(&self) -> String {
        let mut s = String::new();
        if self.i {
            s.push('i')
        }
        if self.m {
            s.push('m')
        }
        if self.s {
            s.push('s')
        }
        if self.u {
            s.push('u')
        }
        if self.v {
            s.push('v')
        }
        s
    }
    /// Unicode mode in the sense of the specification (u or v).
    pub fn unicode_mode(&self) -> bool {
        self.u || self.v
    }
}

#[derive(Clone, Copy, Debug, PartialEq, Eq, Hash, PartialOrd, Ord)]
pub enum EscKind {
    Digit,
    NotDigit,
    Word,
    NotWord,
    Space,
    NotSpace,
}

/// An item of a legacy / `u` bracket.
#[derive(Clone, Debug, PartialEq, Eq, Hash, PartialOrd, Ord)]
pub enum ClassItem {
    Single(u32),
    Range(u32, u32),
    Esc(EscKind),
    /// `\p{..}` / `\P{..}`: (negated, text between the braces)
    Prop(bool, String),
}

/// A `v`-mode class set operand.
#[derive(Clone, Debug, PartialEq, Eq, Hash, PartialOrd, Ord)]
pub enum VOperand {
    Char(u32),
    Range(u32, u32),
    Esc(EscKind),
    Prop(bool, String),
    /// `\q{a|bc|}`
    QStrings(Vec<Vec<u32>>),
    Nested(Box<VClass>),
}

#[derive(Clone, Copy, Debug, PartialEq, Eq, Hash, PartialOrd, Ord)]
pub enum VOp {
    Union,
    Inter,
    Sub,
}

#[derive(Clone, Debug, PartialEq, Eq, Hash, PartialOrd, Ord)]
pub struct VClass {
    pub negated: bool,
    pub op: VOp,
    pub operands: Vec<VOperand>,
}

#[derive(Clone, Debug, PartialEq, Eq, Hash, PartialOrd, Ord)]
pub enum Node {
    Empty,
    Char(u32),
    /// A run of literal characters (same as a Cat of Chars; a leaf for the enumerators).
    Lit(Vec<u32>),
    Dot,
    /// Legacy or `u` bracket.
    Class { negated: bool, items: Vec<ClassItem> },
    /// `v`-mode class set.
    VClass(VClass),
    Esc(EscKind),
    Prop(bool, String),
    BackRef(u32),
    NamedRef(String),
    AssertStart,
    AssertEnd,
    WordB,
    NotWordB,
    Group(Box<Node>, Option<String>),
    NonCap(Box<Node>),
    /// `(?ims-ims:...)`: flags switched on, flags switched off (only i, m, s are used).
    Mods { on: Flags, off: Flags, body: Box<Node> },
    Look { behind: bool, neg: bool, body: Box<Node> },
    Quant { body: Box<Node>, min: u32, max: Option<u32>, greedy: bool },
    Cat(Vec<Node>),
    Alt(Vec<Node>),
}

impl Node {
    pub fn group(n: Node) -> Node {
        Node::Group(Box::new(n), None)
    }
    pub fn named(n: Node, name: &str) -> Node {
        Node::Group(Box::new(n), Some(name.to_string()))
    }
    pub fn quant(n: Node, min: u32, max: Option<u32>, greedy: bool) -> Node {
        Node::Quant { body: Box::new(n), min, max, greedy }
    }
    pub fn look(behind: bool, neg: bool, n: Node) -> Node {
        Node::Look { behind, neg, body: Box::new(n) }
    }

    /// Number of capturing groups.
    pub fn count_groups(&self) -> u32 {
        match self {
            Node::Group(b, _) => 1 + b.count_groups(),
            Node::NonCap(b) | Node::Mods { body: b, .. } | Node::Look { body: b, .. } | Node::Quant { body: b, .. } => {
                b.count_groups()
            }
            Node::Cat(v) | Node::Alt(v) => v.iter().map(|n| n.count_groups()).sum(),
            _ => 0,
        }
    }

    /// Names of the capturing groups in left-paren order (None for unnamed).
    pub fn group_names(&self, out: &mut Vec<Option<String>>) {
        match self {
            Node::Group(b, name) => {
                out.push(name.clone());
                b.group_names(out);
            }
            Node::NonCap(b) | Node::Mods { body: b, .. } | Node::Look { body: b, .. } | Node::Quant { body: b, .. } => {
                b.group_names(out)
            }
            Node::Cat(v) | Node::Alt(v) => v.iter().for_each(|n| n.group_names(out)),
            _ => {}
        }
    }

    pub fn max_backref(&self) -> u32 {
        match self {
            Node::BackRef(n) => *n,
            Node::Group(b, _) | Node::NonCap(b) | Node::Mods { body: b, .. } | Node::Look { body: b, .. } | Node::Quant { body: b, .. } => {
                b.max_backref()
            }
            Node::Cat(v) | Node::Alt(v) => v.iter().map(|n| n.max_backref()).max().unwrap_or(0),
            _ => 0,
        }
    }

    pub fn walk<F: FnMut(&Node)>(&self, f: &mut F) {
        f(self);
        match self {
            Node::Group(b, _) | Node::NonCap(b) | Node::Mods { body: b, .. } | Node::Look { body: b, .. } | Node::Quant { body: b, .. } => {
                b.walk(f)
            }
            Node::Cat(v) | Node::Alt(v) => v.iter().for_each(|n| n.walk(f)),
            _ => {}
        }
    }

    pub fn has_lookbehind(&self) -> bool {
        let mut r = false;
        self.walk(&mut |n| {
            if let Node::Look { behind: true, .. } = n {
                r = true
            }
        });
        r
    }

    /// The early errors of the ES2025 grammar that can be expressed on this AST.
    /// Returns Err(reason) when the pattern is not a valid ES pattern for `flags`.
    pub fn validate(&self, flags: Flags) -> Result<(), &'static str> {
        let ngroups = self.count_groups();
        let mut names = Vec::new();
        self.group_names(&mut names);
        let has_names = names.iter().any(|n| n.is_some());
        // duplicate names: MightBothParticipate
        let mut dup = false;
        check_dups(self, &mut dup);
        if dup {
            return Err("duplicate group name");
        }
        let mut err: Option<&'static str> = None;
        let um = flags.unicode_mode();
        self.walk(&mut |n| match n {
            Node::Quant { body, min, max, .. } => {
                if let Some(mx) = max {
                    if min > mx {
                        err = Some("quantifier out of order");
                    }
                }
                match unwrap_noncap_none(body) {
                    Node::AssertStart | Node::AssertEnd | Node::WordB | Node::NotWordB => {
                        err = Some("nothing to repeat (assertion)")
                    }
                    Node::Look { behind: true, .. } => err = Some("quantified lookbehind"),
                    Node::Look { behind: false, .. } if um => err = Some("quantified lookahead in unicode mode"),
                    // Empty, Quant, Cat and Alt bodies are wrapped in (?:...) by the printer,
                    // which makes them Atoms, so they are quantifiable.
                    _ => {}
                }
            }
            Node::BackRef(k) => {
                if *k == 0 || *k > ngroups {
                    // In legacy mode this is not a backreference at all (octal / identity escape);
                    // the enumerators never mean that, so treat it as outside the language here.
                    err = Some("dangling numeric backreference");
                }
            }
            Node::NamedRef(name) => {
                if !names.iter().any(|n| n.as_deref() == Some(name.as_str())) {
                    if um || has_names {
                        err = Some("dangling named backreference");
                    } else {
                        err = Some("legacy \\k without named groups is an identity escape");
                    }
                }
            }
            Node::Class { items, .. } => {
                for it in items {
                    match it {
                        ClassItem::Range(a, b) if a > b => err = Some("class range out of order"),
                        ClassItem::Prop(..) if !um => err = Some("property escape outside unicode mode"),
                        _ => {}
                    }
                }
                if flags.v {
                    err = Some("legacy bracket node under v");
                }
            }
            Node::VClass(vc) => {
                if !flags.v {
                    err = Some("class set outside v mode");
                }
                if vclass_negation_error(vc) {
                    err = Some("negated class set may contain strings");
                }
            }
            Node::Prop(..) if !um => err = Some("property escape outside unicode mode"),
            Node::Mods { on, off, .. } => {
                if (on.i && off.i) || (on.m && off.m) || (on.s && off.s) {
                    err = Some("modifier repeated")
                }
                if !(on.i || on.m || on.s || off.i || off.m || off.s) {
                    err = Some("empty modifiers")
                }
            }
            _ => {}
        });
        match err {
            Some(e) => Err(e),
            None => Ok(()),
        }
    }
}

/// The node a quantifier really applies to is its body as printed: a Cat/Alt body is wrapped in
/// `(?:...)` by the printer, which makes it an Atom; NonCap is an Atom as well. So only *bare*
/// assertion / lookaround / empty bodies are "nothing to repeat".
fn unwrap_noncap_none(n: &Node) -> &Node {
    n
}

/// Collect names per the MightBothParticipate rule: two groups with the same name conflict unless
/// they are in different alternatives of some enclosing Disjunction.
fn check_dups(n: &Node, dup: &mut bool) -> Vec<String> {
    match n {
        Node::Group(b, name) => {
            let mut v = check_dups(b, dup);
            if let Some(nm) = name {
                if v.contains(nm) {
                    *dup = true;
                }
                v.push(nm.clone());
            }
            v
        }
        Node::NonCap(b) | Node::Mods { body: b, .. } | Node::Look { body: b, .. } | Node::Quant { body: b, .. } => {
            check_dups(b, dup)
        }
        Node::Cat(v) => {
            let mut all: Vec<String> = Vec::new();
            for c in v {
                let names = check_dups(c, dup);
                for nm in names {
                    if all.contains(&nm) {
                        *dup = true;
                    }
                    all.push(nm);
                }
            }
            all
        }
        Node::Alt(v) => {
            // names from different alternatives may coincide
            let mut all: Vec<String> = Vec::new();
            for c in v {
                for nm in check_dups(c, dup) {
                    if !all.contains(&nm) {
                        all.push(nm);
                    }
                }
            }
            all
        }
        _ => Vec::new(),
    }
}

/// Static MayContainStrings (ES2025 22.2.1.6) of a class set's contents, with the name of a property
/// of strings recognised syntactically.
fn vclass_may_contain_strings(vc: &VClass) -> bool {
    let operand = |o: &VOperand| -> bool {
        match o {
            VOperand::QStrings(v) => v.iter().any(|s| s.len() != 1),
            VOperand::Prop(_, name) => matches!(name.as_str(), "Basic_Emoji" | "Emoji_Keycap_Sequence" | "RGI_Emoji_Modifier_Sequence" | "RGI_Emoji_Flag_Sequence" | "RGI_Emoji_Tag_Sequence" | "RGI_Emoji_ZWJ_Sequence" | "RGI_Emoji"),
            VOperand::Nested(n) => !n.negated && vclass_may_contain_strings(n),
            _ => false,
        }
    };
    match vc.op {
        VOp::Union => vc.operands.iter().any(operand),
        VOp::Inter => vc.operands.iter().all(operand),
        VOp::Sub => vc.operands.first().map(operand).unwrap_or(false),
    }
}

fn vclass_negation_error(vc: &VClass) -> bool {
    if vc.negated && vclass_may_contain_strings(vc) {
        return true;
    }
    vc.operands.iter().any(|o| match o {
        VOperand::Nested(n) => vclass_negation_error(n),
        _ => false,
    })
}
