//! C07: compilation is total - Ok or Err for any input, never a panic, crash or hang.
use crate::ast::Flags;
use crate::json::J;
use crate::print;
use crate::report::{Run, Stats};
use crate::subject::{self, CompileOutcome};
use rayon::prelude::*;
use std::sync::atomic::{AtomicBool, AtomicU64, Ordering};
use std::sync::{Arc, Mutex};
use std::time::{Duration, Instant};

pub const TOKENS: &str = "()[]{}?*+|^$\\.-,:=!<>&akb10qpudcx8";
const FLAGSETS: [&str; 7] = ["", "u", "v", "i", "iu", "iv", "ms"];

struct Slot {
    since: Mutex<Option<(Instant, Vec<u32>, String)>>,
}

/// Enumerate all strings over `alphabet` with length <= max_len (as code points) in parallel chunks,
/// compiling each under every flag set; a watchdog reports any compile that runs longer than 10 s.
fn sweep_strings(run: &Run, alphabet: &[u32], max_len: usize, label: &str, hang_flag: &Arc<AtomicBool>) -> Stats {
    let k = alphabet.len() as u64;
    let mut total: u64 = 0;
    for l in 0..=max_len {
        total += k.pow(l as u32);
    }
    let nthreads = rayon::current_num_threads();
    let slots: Arc<Vec<Slot>> = Arc::new((0..nthreads + 1).map(|_| Slot { since: Mutex::new(None) }).collect());
    let done = Arc::new(AtomicBool::new(false));
    let watchdog = {
        let slots = slots.clone();
        let done = done.clone();
        let hang = hang_flag.clone();
        std::thread::spawn(move || {
            while !done.load(Ordering::Relaxed) {
                std::thread::sleep(Duration::from_millis(200));
                for s in slots.iter() {
                    if let Some((t, pat, fl)) = &*s.since.lock().unwrap() {
                        if t.elapsed() > Duration::from_secs(10) {
                            // a compile that does not return: report and stop the whole run
                            let root = crate::fold::root();
                            let dir = root.join("replays").join("C07");
                            let _ = std::fs::create_dir_all(&dir);
                            let path = dir.join("hang.json");
                            let j = J::obj().set("property", J::s("C07")).set("case", J::obj().set("kind", J::s("compile")).set("pattern", J::s(&print::show(pat))).set("pattern_cps", J::cps(pat)).set("flags", J::s(fl)).set("what", J::s("compilation did not return within 10 s")));
                            let _ = std::fs::write(&path, j.pretty());
                            println!("VIOLATION property=C07 replay={}", path.display());
                            println!("  compilation of /{}/{} did not return within 10 s", print::show(pat), fl);
                            hang.store(true, Ordering::SeqCst);
                            std::process::exit(1);
                        }
                    }
                }
            }
        })
    };
    let counter = AtomicU64::new(0);
    let chunk: u64 = 4096;
    let nchunks = (total + chunk - 1) / chunk;
    let known = run.known.clone();
    let st = (0..nchunks)
        .into_par_iter()
        .fold(Stats::default, |mut st, ci| {
            let tid = rayon::current_thread_index().unwrap_or(nthreads);
            let slot = &slots[tid];
            let lo = ci * chunk;
            let hi = ((ci + 1) * chunk).min(total);
            for idx in lo..hi {
                // decode idx -> string (shortlex)
                let mut rem = idx;
                let mut len = 0usize;
                loop {
                    let c = k.pow(len as u32);
                    if rem < c {
                        break;
                    }
                    rem -= c;
                    len += 1;
                }
                let mut pat: Vec<u32> = vec![0; len];
                for i in (0..len).rev() {
                    pat[i] = alphabet[(rem % k) as usize];
                    rem /= k;
                }
                for fs in FLAGSETS {
                    let fl = Flags::parse(fs);
                    *slot.since.lock().unwrap() = Some((Instant::now(), pat.clone(), fs.to_string()));
                    let r = subject::compile(&pat, fl, false);
                    *slot.since.lock().unwrap() = None;
                    st.add("evaluations", 1);
                    st.add("validated", 1);
                    match r {
                        CompileOutcome::Ok(_) => {
                            st.add("nontrivial", 1);
                            st.add("compiled_ok", 1);
                            if idx % 9973 == 0 {
                                st.sample(|| J::obj().set("pattern", J::s(&print::show(&pat))).set("flags", J::s(fs)).set("result", J::s("Ok")));
                            }
                        }
                        CompileOutcome::Err(e) => {
                            st.add("compiled_err", 1);
                            if idx % 99991 == 0 {
                                st.sample(|| J::obj().set("pattern", J::s(&print::show(&pat))).set("flags", J::s(fs)).set("result", J::s(&format!("Err({})", e))));
                            }
                        }
                        CompileOutcome::Panic(m) => {
                            let where_ = m.rsplit(" at ").next().unwrap_or("").to_string();
                            let case = J::obj().set("kind", J::s("compile")).set("pattern", J::s(&print::show(&pat))).set("pattern_cps", J::cps(&pat)).set("flags", J::s(fs)).set("what", J::s("panic during compilation")).set("got", J::s(&m));
                            st.violation(&known, "C07", &format!("panic during compilation at {} [{}]", where_, label), pat.len(), case);
                        }
                    }
                }
            }
            counter.fetch_add(hi - lo, Ordering::Relaxed);
            st
        })
        .reduce(Stats::default, Stats::merge);
    done.store(true, Ordering::Relaxed);
    let _ = watchdog.join();
    st
}

/// The finite family of size-parameterised shapes.
pub fn shape(name: &str, n: usize) -> Option<String> {
    let rep = |s: &str, n: usize| s.repeat(n);
    Some(match name {
        "alt" => format!("{}a", rep("a|", n)),
        "alt_in_group" => format!("({}a)", rep("a|", n)),
        "alt_groups" => format!("{}(a)", rep("(a)|", n)),
        "nest_capture" => format!("{}a{}", rep("(", n), rep(")", n)),
        "nest_noncap" => format!("{}a{}", rep("(?:", n), rep(")", n)),
        "nest_named" => format!("{}a{}", (0..n).map(|i| format!("(?<n{}>", i)).collect::<String>(), rep(")", n)),
        "nest_noncap_named" => format!("{}{}{}", rep("(?:", n), (0..n).map(|i| format!("(?<n{}>a)", i)).collect::<String>(), rep(")", n)),
        "nest_lookahead" => format!("{}a{}", rep("(?=", n), rep(")", n)),
        "nest_lookbehind" => format!("{}a{}", rep("(?<=", n), rep(")", n)),
        "nest_modifier" => format!("{}a{}", rep("(?i:", n), rep(")", n)),
        "nest_class" => format!("{}a{}", rep("[", n), rep("]", n)),
        "nest_quant" => format!("{}a{}", rep("(?:", n), rep(")*", n)),
        "unbalanced_open" => rep("(", n),
        "unbalanced_close" => format!("a{}", rep(")", n)),
        "unbalanced_bracket" => rep("[", n),
        "stars" => rep("a*", n),
        "groups" => rep("(a)", n),
        "named_groups" => (0..n).map(|i| format!("(?<n{}>a)", i)).collect::<String>(),
        "dup_named_backref" => format!("(?:{}(?<n>a))\\k<n>", rep("(?<n>a)|", n)),
        "backrefs" => format!("(a){}", rep("\\1", n)),
        "count_exact" => format!("a{{{}}}", n),
        "count_range" => format!("a{{0,{}}}", n),
        "count_group" => format!("(a){{{}}}", n),
        "count_digits" => format!("a{{{}}}", rep("9", n.min(4000))),
        "count_digits_range" => format!("a{{{},{}}}", rep("1", n.min(4000)), rep("9", n.min(4000))),
        "count_nested" => {
            let k = n.min(64);
            format!("{}a{}", rep("(?:", k), rep("{5})", k))
        }
        "count_nested_big" => {
            let k = n.min(8);
            format!("{}a{}", rep("(?:", k), rep("{65535})", k))
        }
        "rgi_emoji" => rep("\\p{RGI_Emoji}", n.min(2000)),
        "prop_any" => rep("\\p{Any}", n),
        "literal" => rep("a", n),
        "literal_lookbehind" => format!("(?<={})", rep("a", n)),
        "literal_icase" => rep("k", n),
        "class_members" => format!("[{}]", (0..n).map(|i| char::from_u32(0x4E00 + (i as u32 % 20000)).unwrap()).collect::<String>()),
        "class_ranges" => format!("[{}]", (0..n).map(|i| format!("\\u{{{:X}}}-\\u{{{:X}}}", 0x1000 + 3 * (i % 300000), 0x1001 + 3 * (i % 300000))).collect::<String>()),
        "class_qstrings" => format!("[\\q{{{}}}]", (0..n).map(|i| format!("a{}", i)).collect::<Vec<_>>().join("|")),
        "class_subtract" => format!("[\\w{}]", rep("--[a]", n)),
        "escapes" => rep("\\u{10FFFF}", n),
        "lazy_opt_groups" => rep("(a)??", n),
        "lookbehind_groups" => format!("(?<={})", rep("(a)", n)),
        "sibling_nested_classes" => rep("[[a]]", n),
        "sibling_nested_negclasses" => format!("{}(?:x)", rep("[[^a]]", n)),
        "nested_negclass_list" => format!("[{}]", rep("[^a]", n)),
        // duplicate names far apart: n empty groups / n alternatives between the two occurrences
        "dup_named_same_path_far" => format!("(?:(?<a>x)|q){}(?:w|(?<a>y))", rep("(?:)", n)),
        "dup_named_alternatives_far" => format!("(?<a>x){}|(?<a>y)", rep("|b", n)),
        "dup_named_conflict_far" => format!("(?<a>x){}(?<a>y)", rep("(?:b)", n)),
        "nested_class_list" => format!("[{}]", rep("[a]", n)),
        "sibling_groups_in_group" => format!("({})", rep("(?:a)", n)),
        _ => return None,
    })
}

pub const SHAPES: [&str; 48] = [
    "sibling_nested_negclasses", "nested_negclass_list", "dup_named_same_path_far", "dup_named_alternatives_far", "dup_named_conflict_far", "nest_named", "nest_noncap_named", "sibling_nested_classes", "nested_class_list", "sibling_groups_in_group",
    "alt", "alt_in_group", "alt_groups", "nest_capture", "nest_noncap", "nest_lookahead", "nest_lookbehind", "nest_modifier", "nest_class", "nest_quant", "unbalanced_open", "unbalanced_close", "unbalanced_bracket", "stars", "groups", "named_groups", "dup_named_backref",
    "backrefs", "count_exact", "count_range", "count_group", "count_digits", "count_digits_range", "count_nested", "count_nested_big", "rgi_emoji", "prop_any", "literal", "literal_lookbehind", "literal_icase", "class_members", "class_ranges", "class_qstrings", "class_subtract",
    "escapes", "lazy_opt_groups", "lookbehind_groups", "alt",
];

/// Child process body: compile one shape, on the main thread or on a spawned (2 MiB stack) thread.
pub fn child(args: &[String]) -> i32 {
    let name = &args[0];
    let n: usize = args[1].parse().unwrap();
    let flags = args[2].trim_matches('-').to_string();
    let on_thread = args.get(3).map(|s| s == "thread").unwrap_or(false);
    let Some(pat) = shape(name, n) else {
        println!("UNKNOWN-SHAPE");
        return 4;
    };
    let body = move || {
        let r = std::panic::catch_unwind(|| regress::Regex::with_flags(&pat, flags.as_str()));
        match r {
            Ok(Ok(re)) => {
                // the compiled regex must also be usable and droppable
                let _ = std::panic::catch_unwind(|| re.find("a"));
                drop(re);
                println!("OK");
                0
            }
            Ok(Err(e)) => {
                println!("ERR {}", e.text);
                0
            }
            Err(_) => {
                println!("PANIC {}", subject::last_panic());
                3
            }
        }
    };
    if on_thread {
        std::thread::spawn(body).join().unwrap_or(5)
    } else {
        body()
    }
}

fn run_child(name: &str, n: usize, flags: &str, thread: bool, wall: u64) -> (String, String) {
    let exe = std::env::current_exe().unwrap();
    let cmd = format!(
        "ulimit -v 6291456; ulimit -s 8192; ulimit -S -t {}; exec timeout -s KILL {} '{}' c07-child {} {} -{} {}",
        wall,
        wall * 4,
        exe.display(),
        name,
        n,
        flags,
        if thread { "thread" } else { "main" }
    );
    let out = std::process::Command::new("sh").arg("-c").arg(&cmd).env("VERIF_ROOT", crate::fold::root()).output();
    match out {
        Ok(o) => {
            let stdout = String::from_utf8_lossy(&o.stdout).trim().to_string();
            let stderr = String::from_utf8_lossy(&o.stderr).to_string();
            let status = if stderr.contains("has overflowed its stack") || stderr.contains("stack overflow") {
                "stack-overflow".to_string()
            } else if stderr.contains("memory allocation of") {
                "alloc-failed-under-cap".to_string()
            } else {
                match o.status.code() {
                    Some(0) => "exit0".to_string(),
                    Some(137) => "wall-backstop".to_string(),
                    Some(152) => "timeout".to_string(),
                    Some(c) => format!("exit{}", c),
                    None => {
                        use std::os::unix::process::ExitStatusExt;
                        match o.status.signal() {
                            Some(24) => "timeout".to_string(), // SIGXCPU: the CPU-time limit
                            Some(9) => "wall-backstop".to_string(),
                            Some(11) => "stack-overflow".to_string(),
                            s => format!("signal{}", s.unwrap_or(0)),
                        }
                    }
                }
            };
            let last = stdout.lines().last().unwrap_or("").chars().take(200).collect::<String>();
            (status, if last.is_empty() { stderr.lines().next().unwrap_or("").chars().take(200).collect() } else { last })
        }
        Err(e) => ("spawn-failed".into(), e.to_string()),
    }
}

pub fn c07(run: &mut Run) -> Stats {
    let thorough = run.thorough();
    let hang = Arc::new(AtomicBool::new(false));
    let toks: Vec<u32> = TOKENS.chars().map(|c| c as u32).collect();
    let n_tok = if thorough { 5 } else { 4 };
    let t_part = std::time::Instant::now();
    let mut st = sweep_strings(run, &toks, n_tok, "token strings", &hang);
    println!("  C07 token strings: {:.1}s", t_part.elapsed().as_secs_f64());
    let raw: Vec<u32> = vec![0, 0x28, 0x5C, 0xD800, 0xDFFF, 0x10FFFF, 'a' as u32, '{' as u32, '[' as u32, 'u' as u32, '}' as u32];
    st = st.merge(sweep_strings(run, &raw, if thorough { 6 } else { 5 }, "raw code points", &hang));
    println!("  C07 + raw code points: {:.1}s", t_part.elapsed().as_secs_f64());
    // (c) every prefix and every suffix of every seed pattern of C08 (truncated constructs)
    {
        let seeds = crate::c08::seed_patterns(thorough);
        let known = run.known.clone();
        let s3 = seeds
            .par_iter()
            .fold(Stats::default, |mut st, p| {
                let mut cuts: Vec<Vec<u32>> = Vec::new();
                for k in 0..=p.len() {
                    cuts.push(p[..k].to_vec());
                    cuts.push(p[k..].to_vec());
                    // a construct cut off right after its opening
                    for tail in ["\\", "\\u", "\\x", "\\c", "\\k<", "\\p{", "\\q{", "(?", "(?<", "[", "[^", "{", "{1,", "\\u{", "\\ud83d\\u"] {
                        let mut c = p[..k].to_vec();
                        c.extend(tail.chars().map(|ch| ch as u32));
                        cuts.push(c);
                    }
                }
                for pat in cuts {
                    for fs in FLAGSETS {
                        st.add("evaluations", 1);
                        st.add("validated", 1);
                        st.add("truncations", 1);
                        match subject::compile(&pat, Flags::parse(fs), false) {
                            CompileOutcome::Ok(_) => st.add("nontrivial", 1),
                            CompileOutcome::Err(_) => {}
                            CompileOutcome::Panic(m) => {
                                let where_ = m.rsplit(" at ").next().unwrap_or("").to_string();
                                let case = J::obj().set("kind", J::s("compile")).set("pattern", J::s(&print::show(&pat))).set("pattern_cps", J::cps(&pat)).set("flags", J::s(fs)).set("what", J::s("panic during compilation")).set("got", J::s(&m));
                                st.violation(&known, "C07", &format!("panic during compilation at {} [truncated seed pattern]", where_), pat.len(), case);
                            }
                        }
                    }
                }
                st
            })
            .reduce(Stats::default, Stats::merge);
        st = st.merge(s3);
    }
    println!("  C07 + truncations: {:.1}s", t_part.elapsed().as_secs_f64());
    // (c2) every code point of interest in every one-character position of a menu of templates, optimised
    // and unoptimised: all code points with a case partner in either mode, the neighbours of the UTF-8 /
    // UTF-16 length boundaries, ASCII, the surrogate block's ends (thorough: all 0..=0x10FFFF)
    {
        let mut points: Vec<u32> = Vec::new();
        if thorough {
            points.extend(0..=0x10FFFFu32);
        } else {
            points.extend(0..=0x100u32);
            for b in [0x7FFu32, 0x800, 0xD7FF, 0xD800, 0xDBFF, 0xDC00, 0xDFFF, 0xE000, 0xFFFF, 0x10000, 0x10FFFF] {
                points.extend(b.saturating_sub(2)..=(b + 2).min(0x10FFFF));
            }
            for c in 0x100..=0x1FFFFu32 {
                if (0xD800..=0xDFFF).contains(&c) {
                    continue;
                }
                if crate::fold::class_of(c, true).len() > 1 || crate::fold::class_of(c, false).len() > 1 {
                    points.push(c);
                }
            }
            points.sort();
            points.dedup();
        }
        // 'C' marks the position of the code point
        let templates: Vec<Vec<u32>> = ["C", "[C]", "[^C]", "[C-C]", "[\\0-C]", "[\\x7c-C]", "[C-\u{10FFFF}]", "[aC]", "[\\q{Cx}]", "[\\q{xC|C}]", "[\\q{C}&&C]", "[a--C]", "(C)\\1", "C{2}", "(?<=C)", "\\C", "[\\C]", "(?<C>a)", "(?i:C)", "Cx|Cy"]
            .iter()
            .map(|t| t.chars().map(|ch| ch as u32).collect())
            .collect();
        let known = run.known.clone();
        let npoints = points.len();
        let s4 = points
            .par_iter()
            .fold(Stats::default, |mut st, &c| {
                for t in &templates {
                    let pat: Vec<u32> = t.iter().map(|&x| if x == 'C' as u32 { c } else { x }).collect();
                    for fs in FLAGSETS {
                        for no_opt in [false, true] {
                            st.add("evaluations", 1);
                            st.add("validated", 1);
                            st.add("code_point_templates", 1);
                            match subject::compile(&pat, Flags::parse(fs), no_opt) {
                                CompileOutcome::Ok(_) => st.add("nontrivial", 1),
                                CompileOutcome::Err(_) => {}
                                CompileOutcome::Panic(m) => {
                                    let where_ = m.rsplit(" at ").next().unwrap_or("").to_string();
                                    let case = J::obj().set("kind", J::s("compile")).set("pattern", J::s(&print::show(&pat))).set("pattern_cps", J::cps(&pat)).set("flags", J::s(fs)).set("no_opt", J::Bool(no_opt)).set("what", J::s("panic during compilation")).set("got", J::s(&m));
                                    st.violation(&known, "C07", &format!("panic during compilation at {} [code point in template]", where_), pat.len(), case);
                                }
                            }
                        }
                    }
                }
                st
            })
            .reduce(Stats::default, Stats::merge);
        run.extra.push(("code_points_in_templates".into(), J::u(npoints as u64)));
        st = st.merge(s4);
    }
    println!("  C07 + code point templates: {:.1}s", t_part.elapsed().as_secs_f64());
    // (c3) digit runs in every numeric context: prefix x every string over three digits up to length 10 (11
    // thorough) x suffix (values beyond 32 and 64 bits, leading zeros)
    {
        let hex_ctx: [(&str, &str, &str); 10] = [("\\u{", "0 1 F", "}"), ("[\\u{", "0 1 F", "}]"), ("[\\q{\\u{", "0 1 F", "}}]"), ("(?<\\u{", "0 1 F", "}>x)"), ("\\x", "0 1 F", ""), ("\\u", "0 D F", "\\uDC00"), ("\\k<\\u{", "0 1 F", "}>"), ("\\p{", "0 1 F", "}"), ("\\c", "0 1 F", ""), ("[\\c", "0 1 F", "]")];
        let dec_ctx: [(&str, &str, &str); 8] = [("a{", "0 1 9", "}"), ("a{1,", "0 4 9", "}"), ("a{", "0 4 9", ",}"), ("(a)\\", "0 1 9", ""), ("\\", "0 1 7", ""), ("[\\", "0 1 7", "]"), ("(?<n", "0 1 9", ">a)\\k<n1>"), ("a{", "1 2 9", ",1}")];
        let maxlen = if thorough { 11 } else { 10 };
        let mut jobs: Vec<(String, String, String, Vec<char>)> = Vec::new();
        for (pre, digits, suf) in hex_ctx.iter().chain(dec_ctx.iter()) {
            jobs.push((pre.to_string(), suf.to_string(), digits.to_string(), digits.split(' ').map(|d| d.chars().next().unwrap()).collect()));
        }
        let known = run.known.clone();
        let chunk = 2048u64;
        let mut units: Vec<(usize, u64, u64)> = Vec::new();
        for (ji, (_, _, _, digits)) in jobs.iter().enumerate() {
            let k = digits.len() as u64;
            let total: u64 = (0..=maxlen as u32).map(|l| k.pow(l)).sum();
            let mut lo = 0;
            while lo < total {
                units.push((ji, lo, (lo + chunk).min(total)));
                lo += chunk;
            }
        }
        let s5 = units
            .par_iter()
            .fold(Stats::default, |mut st, &(ji, lo, hi)| {
                let (pre, suf, _, digits) = &jobs[ji];
                let k = digits.len() as u64;
                for idx in lo..hi {
                    // shortlex decode
                    let mut rem = idx;
                    let mut len = 0u32;
                    while rem >= k.pow(len) {
                        rem -= k.pow(len);
                        len += 1;
                    }
                    let mut run_digits = vec!['0'; len as usize];
                    for i in (0..len as usize).rev() {
                        run_digits[i] = digits[(rem % k) as usize];
                        rem /= k;
                    }
                    let text: String = format!("{}{}{}", pre, run_digits.iter().collect::<String>(), suf);
                    let pat: Vec<u32> = text.chars().map(|c| c as u32).collect();
                    for fs in ["", "u", "v", "i"] {
                        st.add("evaluations", 1);
                        st.add("validated", 1);
                        st.add("digit_run_patterns", 1);
                        match subject::compile(&pat, Flags::parse(fs), false) {
                            CompileOutcome::Ok(_) => st.add("nontrivial", 1),
                            CompileOutcome::Err(_) => {}
                            CompileOutcome::Panic(m) => {
                                let where_ = m.rsplit(" at ").next().unwrap_or("").to_string();
                                let case = J::obj().set("kind", J::s("compile")).set("pattern", J::s(&text)).set("pattern_cps", J::cps(&pat)).set("flags", J::s(fs)).set("what", J::s("panic during compilation")).set("got", J::s(&m));
                                st.violation(&known, "C07", &format!("panic during compilation at {} [digit run after {}]", where_, pre), pat.len(), case);
                            }
                        }
                    }
                }
                st
            })
            .reduce(Stats::default, Stats::merge);
        st = st.merge(s5);
    }
    // (c4) large sets combined: every ordered pair of 18 properties in union / intersection / subtraction /
    // negation / nested forms (interval-list algorithms on long lists)
    {
        let props = ["L", "Lu", "Ll", "Alphabetic", "Script=Latin", "sc=Greek", "scx=Latin", "Nd", "N", "P", "M", "Lowercase", "ASCII", "Emoji", "Cased", "ID_Continue", "Any", "RGI_Emoji"];
        let tpls = ["[\\p{A}\\p{B}]", "[\\p{A}&&\\p{B}]", "[\\p{A}--\\p{B}]", "[^\\p{A}\\p{B}]", "[\\p{A}&&[\\p{B}\\p{A}]]", "[\\P{A}--\\P{B}]", "[[^\\p{A}]&&\\p{B}]", "\\p{A}\\P{B}+", "[\\p{A}--[\\p{B}a-z]]"];
        let known = run.known.clone();
        let jobs: Vec<(&str, &str)> = props.iter().flat_map(|a| props.iter().map(move |b| (*a, *b))).collect();
        let s6 = jobs
            .par_iter()
            .fold(Stats::default, |mut st, (a, b)| {
                for tpl in tpls {
                    let text = tpl.replace('A', "\u{1}").replace('B', b).replace("\u{1}", a);
                    let pat: Vec<u32> = text.chars().map(|c| c as u32).collect();
                    for fs in ["u", "v", "iv", "iu"] {
                        for no_opt in [false, true] {
                            st.add("evaluations", 1);
                            st.add("validated", 1);
                            st.add("property_pair_patterns", 1);
                            match subject::compile(&pat, Flags::parse(fs), no_opt) {
                                CompileOutcome::Ok(_) => st.add("nontrivial", 1),
                                CompileOutcome::Err(_) => {}
                                CompileOutcome::Panic(m) => {
                                    let where_ = m.rsplit(" at ").next().unwrap_or("").to_string();
                                    let case = J::obj().set("kind", J::s("compile")).set("pattern", J::s(&text)).set("pattern_cps", J::cps(&pat)).set("flags", J::s(fs)).set("no_opt", J::Bool(no_opt)).set("what", J::s("panic during compilation")).set("got", J::s(&m));
                                    st.violation(&known, "C07", &format!("panic during compilation at {} [pair of properties in {}]", where_, tpl), pat.len(), case);
                                }
                            }
                        }
                    }
                }
                st
            })
            .reduce(Stats::default, Stats::merge);
        st = st.merge(s6);
    }
    println!("  C07 + digit runs + property pairs: {:.1}s", t_part.elapsed().as_secs_f64());
    // size-parameterised shapes, each in a child process
    let sizes: Vec<usize> = if thorough { vec![1, 2, 10, 100, 255, 256, 257, 1000, 10_000, 65_535, 65_536, 100_000, 1_000_000] } else { vec![1, 2, 10, 100, 255, 256, 257, 1000, 10_000, 65_535, 65_536] };
    let mut jobs: Vec<(&str, usize, &str, bool)> = Vec::new();
    let mut seen = std::collections::BTreeSet::new();
    for name in SHAPES {
        if !seen.insert(name) {
            continue;
        }
        for &n in &sizes {
            for fs in ["", "u", "v"] {
                // the spawned thread (2 MiB) is the stricter setting; the main thread (8 MiB) is added
                // for the large sizes
                jobs.push((name, n, fs, true));
                if n >= 10_000 {
                    jobs.push((name, n, fs, false));
                }
            }
        }
    }
    let wall = if thorough { 120 } else { 40 };
    let known = run.known.clone();
    let results: Vec<((&str, usize, &str, bool), (String, String))> = jobs.par_iter().map(|j| (*j, run_child(j.0, j.1, j.2, j.3, wall))).collect();
    let mut table = Vec::new();
    let mut caps: Vec<String> = Vec::new();
    for ((name, n, fs, th), (status, out)) in results {
        st.add("evaluations", 1);
        st.add("validated", 1);
        st.add("shape_runs", 1);
        let ok = status == "exit0" && (out.starts_with("OK") || out.starts_with("ERR"));
        if out.starts_with("OK") {
            st.add("nontrivial", 1);
        }
        if ok {
            if n >= 65_535 {
                table.push(J::obj().set("shape", J::s(name)).set("n", J::u(n as u64)).set("flags", J::s(fs)).set("result", J::s(&out.chars().take(60).collect::<String>())));
            }
            continue;
        }
        // A run cut by the harness's own caps is not a verdict: an allocation failure under the
        // address-space cap, or a wall timeout on a large input, is reported as a cap.
        // The resource envelope under which "never a crash" is judged: 6 GiB of address space must suffice
        // for a pattern of at most 2^20 code points (more than 6 KiB per code point). Beyond that length an
        // allocation failure is the harness's cap, not a verdict.
        let pat_len = shape(name, n).map(|p| p.chars().count()).unwrap_or(usize::MAX);
        // The time limit is CPU time of the child (independent of how loaded the machine is); the wall-clock
        // backstop (4x) only fires when the machine itself is starved, which says nothing about the subject.
        // A CPU-time-out is a verdict only for a small input (at most 4096 code points of pattern): larger
        // shapes do legitimately heavy work (2000 copies of \p{RGI_Emoji} expand to 7 million string
        // alternatives) and how long that takes depends on the machine.
        if (status == "alloc-failed-under-cap" && pat_len > (1 << 20)) || (status == "timeout" && (n > 10_000 || pat_len > 4096)) || status == "wall-backstop" {
            caps.push(format!("{} n={} flags={:?} {}: {}", name, n, fs, if th { "thread" } else { "main" }, status));
            st.add("shape_runs_cut_by_caps", 1);
            continue;
        }
        let what = match status.as_str() {
            "stack-overflow" => "process aborted through stack exhaustion during compilation",
            "alloc-failed-under-cap" => "process aborted by allocation failure: 6 GiB do not suffice to compile a pattern of at most 2^20 code points",
            "timeout" => "compilation of a small input did not finish within the wall limit",
            _ if out.starts_with("PANIC") => "panic during compilation",
            _ => "compilation crashed the child process",
        };
        let case = J::obj()
            .set("kind", J::s("compile_shape"))
            .set("shape", J::s(name))
            .set("n", J::u(n as u64))
            .set("flags", J::s(fs))
            .set("thread", J::s(if th { "spawned thread (2 MiB stack)" } else { "main thread (8 MiB stack)" }))
            .set("what", J::s(what))
            .set("status", J::s(&status))
            .set("got", J::s(&out))
            .set("pattern_head", J::s(&shape(name, n).unwrap_or_default().chars().take(60).collect::<String>()));
        st.violation(&known, "C07", &format!("{}: shape {}", what, name), n, case);
    }
    println!("  C07 + shapes in child processes: {:.1}s", t_part.elapsed().as_secs_f64());
    run.caps.extend(caps.into_iter().take(40));
    for t in table.into_iter().take(6) {
        st.sample(|| t);
    }
    run.rule = format!(
        "(a) every string over the {}-token alphabet {:?} of length <= {} and every raw code point string over {{0, (, \\, U+D800, U+DFFF, U+10FFFF, a, {{, [, u, }}}} of length <= {} x flag sets {:?}: from_unicode must return Ok or Err (catch_unwind; a watchdog reports any compile > 10 s); (c) every prefix and suffix of every C08 seed pattern, and every prefix followed by each of 15 cut-off construct openings (\\ \\u \\x \\c \\k< \\p{{ \\q{{ (? (?< [ [^ {{ {{1, \\u{{ \\ud83d\\u), x the same flag sets; (c2) every code point of interest (all with a case partner in either mode, encoding-length boundary neighbours, 0..=U+0100, surrogate block ends; thorough: all of 0..=0x10FFFF) substituted into 20 templates (atom, class member, range end, \\q string, set operand, backreference target, quantified, lookbehind, escaped, group name, modifier body, alternation), x the same flag sets x {{optimised, no_opt}}; (c3) 18 numeric contexts (\\u{{ \\x \\u \\c \\k<\\u{{ \\p{{ in and out of classes, group names, {{n}} {{n,m}} {{n,}}, \\N, octal) x every run over three digits of length <= 10 (11 thorough) x {{\"\",u,v,i}}; (c4) every ordered pair of 18 large properties in 9 class templates (union, &&, --, negation, nesting) x {{u,v,iu,iv}} x {{optimised, no_opt}}; (b) {} size-parameterised shapes x sizes {:?} x {{\"\",u,v}} x {{main thread, spawned 2 MiB thread}}, each in a child process (8 MiB stack, 6 GiB address space, {} s of CPU time): exit status 0 with Ok/Err; a CPU time-out is a violation only for patterns of at most 4096 code points; an allocation failure under the 6 GiB cap is a violation for patterns of at most 2^20 code points and a cap beyond; non-trivial = the input compiles",
        toks.len(),
        TOKENS,
        n_tok,
        if thorough { 6 } else { 5 },
        FLAGSETS,
        seen.len(),
        sizes,
        wall
    );
    run.assumptions = vec!["(b) is a finite family of shapes and sizes, not all large inputs".into(), "u32 values above 0x10FFFF are outside from_unicode's documented domain and are not tried".into()];
    st
}
