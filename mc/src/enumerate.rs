//! Size-ordered exhaustive enumeration of pattern ASTs and of haystacks.
use crate::ast::*;
use crate::print;
use std::collections::HashSet;

#[derive(Clone, Debug)]
pub enum Unary {
    Group,
    Named(&'static str),
    NonCap,
    Look(bool, bool),
    Quant(u32, Option<u32>, bool),
    Mods(Flags, Flags),
}

#[derive(Clone, Debug, Default)]
pub struct Profile {
    pub name: &'static str,
    pub leaves: Vec<Node>,
    pub unary: Vec<Unary>,
    pub cat: bool,
    pub alt: bool,
    /// maximum nesting of quantifiers (0 = unlimited)
    pub max_quant_nest: usize,
}

pub fn apply(u: &Unary, n: &Node) -> Option<Node> {
    Some(match u {
        Unary::Group => Node::group(n.clone()),
        Unary::Named(s) => Node::named(n.clone(), s),
        Unary::NonCap => Node::NonCap(Box::new(n.clone())),
        Unary::Look(b, ng) => Node::look(*b, *ng, n.clone()),
        Unary::Quant(min, max, g) => {
            // x{..}{..} prints as (?:x{..}){..}; keep it (it is where nested-loop bookkeeping lives)
            Node::quant(n.clone(), *min, *max, *g)
        }
        Unary::Mods(on, off) => Node::Mods { on: *on, off: *off, body: Box::new(n.clone()) },
    })
}

fn quant_nest(n: &Node) -> usize {
    match n {
        Node::Quant { body, .. } => 1 + quant_nest(body),
        Node::Group(b, _) | Node::NonCap(b) | Node::Mods { body: b, .. } | Node::Look { body: b, .. } => quant_nest(b),
        Node::Cat(v) | Node::Alt(v) => v.iter().map(quant_nest).max().unwrap_or(0),
        _ => 0,
    }
}

fn cat2(a: &Node, b: &Node) -> Option<Node> {
    // canonical: left operand is not a Cat and not Empty; right operand not Empty
    if matches!(a, Node::Cat(_) | Node::Empty) || matches!(b, Node::Empty) {
        return None;
    }
    let mut v = vec![a.clone()];
    match b {
        Node::Cat(w) => v.extend(w.iter().cloned()),
        other => v.push(other.clone()),
    }
    Some(Node::Cat(v))
}

fn alt2(a: &Node, b: &Node) -> Option<Node> {
    if matches!(a, Node::Alt(_)) {
        return None;
    }
    let mut v = vec![a.clone()];
    match b {
        Node::Alt(w) => v.extend(w.iter().cloned()),
        other => v.push(other.clone()),
    }
    Some(Node::Alt(v))
}

/// All ASTs of exactly size n for n = 1..=max_size (index 0 unused), deduplicated by printed form.
pub fn enumerate(p: &Profile, max_size: usize) -> Vec<Vec<Node>> {
    let mut by_size: Vec<Vec<Node>> = vec![Vec::new(); max_size + 1];
    let mut seen: HashSet<Vec<u32>> = HashSet::new();
    for n in 1..=max_size {
        let mut out = Vec::new();
        stream_size(p, &by_size, n, &mut |node: Node| {
            let s = print::print(&node);
            if seen.insert(s) {
                out.push(node);
            }
        });
        by_size[n] = out;
    }
    by_size
}

/// Generate every AST of exactly size n from the (complete) lists of smaller sizes.
pub fn stream_size(p: &Profile, by_size: &[Vec<Node>], n: usize, f: &mut dyn FnMut(Node)) {
    if n == 1 {
        for l in &p.leaves {
            f(l.clone());
        }
        return;
    }
    for u in &p.unary {
        for b in &by_size[n - 1] {
            if let Some(x) = apply(u, b) {
                if p.max_quant_nest > 0 && matches!(u, Unary::Quant(..)) && quant_nest(&x) > p.max_quant_nest {
                    continue;
                }
                f(x);
            }
        }
    }
    if n >= 3 {
        for i in 1..=(n - 2) {
            let j = n - 1 - i;
            for a in &by_size[i] {
                for b in &by_size[j] {
                    if p.cat {
                        if let Some(x) = cat2(a, b) {
                            f(x);
                        }
                    }
                    if p.alt {
                        if let Some(x) = alt2(a, b) {
                            f(x);
                        }
                    }
                }
            }
        }
    }
}

/// Number of (constructor, operand) outer work units for parallel streaming of size n.
pub fn outer_units(p: &Profile, by_size: &[Vec<Node>], n: usize) -> Vec<(usize, usize)> {
    // unit = (kind, index): kind 0..unary.len() => unary kind over whole by_size[n-1] chunked by index;
    // kind >= unary.len(): binary split i = kind - unary.len() + 1, index into by_size[i]
    let mut units = Vec::new();
    if n == 1 {
        units.push((0, 0));
        return units;
    }
    for (k, _) in p.unary.iter().enumerate() {
        for idx in 0..by_size[n - 1].len() {
            units.push((k, idx));
        }
    }
    if n >= 3 {
        for i in 1..=(n - 2) {
            for idx in 0..by_size[i].len() {
                units.push((p.unary.len() + i - 1, idx));
            }
        }
    }
    units
}

/// Generate the ASTs of one outer unit (see outer_units).
pub fn stream_unit(p: &Profile, by_size: &[Vec<Node>], n: usize, unit: (usize, usize), f: &mut dyn FnMut(Node)) {
    if n == 1 {
        for l in &p.leaves {
            f(l.clone());
        }
        return;
    }
    let (k, idx) = unit;
    if k < p.unary.len() {
        let u = &p.unary[k];
        let b = &by_size[n - 1][idx];
        if let Some(x) = apply(u, b) {
            if p.max_quant_nest > 0 && matches!(u, Unary::Quant(..)) && quant_nest(&x) > p.max_quant_nest {
                return;
            }
            f(x);
        }
        return;
    }
    let i = k - p.unary.len() + 1;
    let j = n - 1 - i;
    let a = &by_size[i][idx];
    for b in &by_size[j] {
        if p.cat {
            if let Some(x) = cat2(a, b) {
                f(x);
            }
        }
        if p.alt {
            if let Some(x) = alt2(a, b) {
                f(x);
            }
        }
    }
}

#[derive(Clone, Debug)]
pub struct Hay {
    pub cps: Vec<u32>,
    pub text: String,
    /// byte offset of code point index i (len+1 entries)
    pub offs: Vec<usize>,
}

impl Hay {
    pub fn new(cps: Vec<u32>) -> Hay {
        let mut text = String::new();
        let mut offs = Vec::with_capacity(cps.len() + 1);
        for &c in &cps {
            offs.push(text.len());
            text.push(char::from_u32(c).expect("haystack code points must be scalar values"));
        }
        offs.push(text.len());
        Hay { cps, text, offs }
    }
    pub fn is_ascii(&self) -> bool {
        self.cps.iter().all(|&c| c < 128)
    }
    /// code point index for a byte offset (None when not on a boundary)
    pub fn cp_index(&self, off: usize) -> Option<usize> {
        self.offs.binary_search(&off).ok()
    }
}

/// All strings over `alphabet` of length 0..=max_len, shortest first.
pub fn all_hays(alphabet: &[u32], max_len: usize) -> Vec<Hay> {
    let mut out = vec![Hay::new(vec![])];
    let mut prev: Vec<Vec<u32>> = vec![vec![]];
    for _ in 0..max_len {
        let mut next = Vec::new();
        for p in &prev {
            for &a in alphabet {
                let mut q = p.clone();
                q.push(a);
                next.push(q);
            }
        }
        for q in &next {
            out.push(Hay::new(q.clone()));
        }
        prev = next;
    }
    out
}

pub fn chars(s: &str) -> Vec<u32> {
    s.chars().map(|c| c as u32).collect()
}
