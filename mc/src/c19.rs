//! C19: a compiled Regex is immutable and safe to share across threads.
//! (1) compile-time auto-trait assertions; (2) every schedule of 2-3 real threads searching one shared
//! Regex with at most B preemptions, scheduling points = interpreter steps (hook H1); (3) every
//! ordered history of up to three queries on one Regex.
#![cfg(feature = "hooks")]
use crate::json::J;
use crate::report::{Run, Stats};
use crate::subject::{self, Mode, SMatch};
use std::sync::{Arc, Condvar, Mutex};

fn assert_send_sync<T: Send + Sync>() {}

#[allow(dead_code)]
fn static_assertions() {
    assert_send_sync::<regress::Regex>();
    assert_send_sync::<regress::Match>();
    assert_send_sync::<regress::Error>();
}

// ---------------------------------------------------------------- controlled scheduler

#[derive(Default)]
struct SchedState {
    current: usize,
    finished: Vec<bool>,
    step: usize,
    /// forced switches: at global step index k, hand the baton to thread t
    switches: Vec<(usize, usize)>,
    /// trace: for each global step, (thread that took it, threads enabled at that point)
    trace: Vec<(usize, Vec<usize>)>,
    /// divergence while replaying the prefix (a switch target that is not enabled)
    diverged: Option<String>,
    active: bool,
}

struct Sched {
    m: Mutex<SchedState>,
    cv: Condvar,
}

static SCHED: Sched = Sched { m: Mutex::new(SchedState { current: 0, finished: Vec::new(), step: 0, switches: Vec::new(), trace: Vec::new(), diverged: None, active: false }), cv: Condvar::new() };

thread_local! {
    static TID: std::cell::Cell<usize> = const { std::cell::Cell::new(usize::MAX) };
}

fn enabled(st: &SchedState) -> Vec<usize> {
    (0..st.finished.len()).filter(|&t| !st.finished[t]).collect()
}

/// The per-step callback installed in every worker thread: a scheduling point.
fn sched_point() {
    let tid = TID.with(|t| t.get());
    if tid == usize::MAX {
        return;
    }
    let mut st = SCHED.m.lock().unwrap();
    if !st.active {
        return;
    }
    // wait for the baton (only needed right after a forced switch away from us)
    while st.current != tid {
        st = SCHED.cv.wait(st).unwrap();
    }
    let k = st.step;
    st.step += 1;
    let en = enabled(&st);
    st.trace.push((tid, en.clone()));
    if let Some(&(_, target)) = st.switches.iter().find(|(at, _)| *at == k) {
        if !en.contains(&target) {
            st.diverged = Some(format!("replay diverged: switch to thread {} at step {} but it is not enabled", target, k));
        } else if target != tid {
            st.current = target;
            SCHED.cv.notify_all();
            while st.current != tid {
                st = SCHED.cv.wait(st).unwrap();
            }
        }
    }
}

fn thread_begin(tid: usize) {
    TID.with(|t| t.set(tid));
    let mut st = SCHED.m.lock().unwrap();
    while st.current != tid {
        st = SCHED.cv.wait(st).unwrap();
    }
}

fn thread_end(tid: usize) {
    let mut st = SCHED.m.lock().unwrap();
    st.finished[tid] = true;
    if st.current == tid {
        if let Some(&next) = enabled(&st).first() {
            st.current = next;
        }
    }
    SCHED.cv.notify_all();
    TID.with(|t| t.set(usize::MAX));
}

#[derive(Clone)]
pub struct Query {
    pub hay: String,
    pub start: usize,
    pub mode: Mode,
}

pub struct Scenario {
    pub name: String,
    pub pattern: String,
    pub flags: String,
    pub shared: bool,
    pub threads: Vec<Vec<Query>>,
}

type Results = Vec<Vec<Vec<SMatch>>>;

struct Execution {
    results: Results,
    trace: Vec<(usize, Vec<usize>)>,
    diverged: Option<String>,
    fingerprint_after: u64,
}

fn run_once(sc: &Scenario, re: &Arc<regress::Regex>, switches: &[(usize, usize)]) -> Execution {
    {
        let mut st = SCHED.m.lock().unwrap();
        *st = SchedState { current: 0, finished: vec![false; sc.threads.len()], step: 0, switches: switches.to_vec(), trace: Vec::new(), diverged: None, active: true };
    }
    let mut handles = Vec::new();
    for (tid, qs) in sc.threads.iter().enumerate() {
        let qs = qs.clone();
        let re_t: Arc<regress::Regex> = if sc.shared { re.clone() } else { Arc::new((**re).clone()) };
        handles.push(std::thread::spawn(move || {
            regress::verif::set_callback(Some(sched_point));
            thread_begin(tid);
            let mut out = Vec::new();
            for q in &qs {
                let r = std::panic::catch_unwind(std::panic::AssertUnwindSafe(|| match subject::find_n(&re_t, q.mode, &q.hay, q.start, 16, u64::MAX) {
                    subject::Outcome::Ok(v) => v,
                    other => vec![SMatch { start: usize::MAX, end: usize::MAX, caps: vec![Some((format!("{:?}", other).len(), 0))] }],
                }));
                out.push(r.unwrap_or_else(|_| vec![SMatch { start: usize::MAX, end: 0, caps: vec![] }]));
            }
            regress::verif::set_callback(None);
            thread_end(tid);
            out
        }));
    }
    let results: Results = handles.into_iter().map(|h| h.join().unwrap_or_default()).collect();
    let mut st = SCHED.m.lock().unwrap();
    st.active = false;
    Execution { results, trace: std::mem::take(&mut st.trace), diverged: st.diverged.take(), fingerprint_after: subject::fingerprint(re) }
}

fn preemptions(switches: &[(usize, usize)], trace: &[(usize, Vec<usize>)]) -> usize {
    // a forced switch away from a thread that is still enabled is a preemption (always the case here,
    // since the running thread is by definition enabled at its own step)
    switches.iter().filter(|(k, t)| trace.get(*k).map(|(tid, _)| tid != t).unwrap_or(true)).count()
}

fn scenarios(thorough: bool) -> Vec<Scenario> {
    let q = |h: &str, s: usize, mode: Mode| Query { hay: h.to_string(), start: s, mode };
    let regs: Vec<(&str, &str, Vec<Query>)> = vec![
        ("(a+)+b", "", vec![q("aab", 0, subject::BT), q("aaa", 0, subject::BT)]),
        ("(?:(a)|b)*c", "", vec![q("abac", 0, subject::BT), q("bbx", 0, subject::BT)]),
        ("(?<=(a))b|(?=(c))", "", vec![q("abc", 0, subject::BT), q("c", 0, subject::BT)]),
        ("a*?b{1,2}", "", vec![q("aabb", 0, subject::BT), q("b", 0, subject::BT)]),
        ("(.)\\1", "i", vec![q("xaAy", 0, subject::BT), q("ab", 0, subject::BT)]),
        ("(a|ab)(c|bcd)(d*)", "", vec![q("abcd", 0, subject::PIKE), q("ac", 0, subject::PIKE)]),
        ("\\b\\w+\\b", "", vec![q("hi yo", 0, subject::BT_ASCII), q("  ", 0, subject::BT_ASCII)]),
        ("[^a]+é", "u", vec![q("xxé", 0, subject::BT), q("aé", 0, subject::PIKE)]),
    ];
    let mut out = Vec::new();
    for (p, f, qs) in &regs {
        // two threads, one query each, shared regex
        out.push(Scenario { name: "2 threads x 1 query, shared".into(), pattern: p.to_string(), flags: f.to_string(), shared: true, threads: vec![vec![qs[0].clone()], vec![qs[1].clone()]] });
        // same query on both threads (forced collision on identical state)
        out.push(Scenario { name: "2 threads x same query, shared".into(), pattern: p.to_string(), flags: f.to_string(), shared: true, threads: vec![vec![qs[0].clone()], vec![qs[0].clone()]] });
        if thorough {
            out.push(Scenario { name: "2 threads x 2 queries, shared".into(), pattern: p.to_string(), flags: f.to_string(), shared: true, threads: vec![vec![qs[0].clone(), qs[1].clone()], vec![qs[1].clone(), qs[0].clone()]] });
            out.push(Scenario { name: "3 threads x 1 query, shared".into(), pattern: p.to_string(), flags: f.to_string(), shared: true, threads: vec![vec![qs[0].clone()], vec![qs[1].clone()], vec![qs[0].clone()]] });
        }
        out.push(Scenario { name: "2 threads x 1 query, clones".into(), pattern: p.to_string(), flags: f.to_string(), shared: false, threads: vec![vec![qs[0].clone()], vec![qs[1].clone()]] });
    }
    out
}

fn results_json(r: &Results) -> J {
    J::Arr(r.iter().map(|t| J::Arr(t.iter().map(|q| crate::sweep::seq_json(q)).collect())).collect())
}

fn explore_scenario(sc: &Scenario, bound: usize, max_schedules: usize, run: &Run, st: &mut Stats) {
    let re = Arc::new(regress::Regex::with_flags(&sc.pattern, sc.flags.as_str()).expect("scenario pattern compiles"));
    let fp0 = subject::fingerprint(&re);
    // sequential oracle on a fresh compile
    let fresh = regress::Regex::with_flags(&sc.pattern, sc.flags.as_str()).unwrap();
    let expected: Results = sc.threads.iter().map(|qs| qs.iter().map(|q| match subject::find_n(&fresh, q.mode, &q.hay, q.start, 16, u64::MAX) { subject::Outcome::Ok(v) => v, _ => vec![] }).collect()).collect();
    let case = |what: &str, sw: &[(usize, usize)], got: &Results| {
        J::obj()
            .set("kind", J::s("schedule"))
            .set("scenario", J::s(&sc.name))
            .set("pattern", J::s(&sc.pattern))
            .set("flags", J::s(&sc.flags))
            .set("queries", J::Arr(sc.threads.iter().map(|qs| J::Arr(qs.iter().map(|q| J::s(&format!("{:?}@{} {:?}", q.hay, q.start, q.mode))).collect())).collect()))
            .set("switches", J::Arr(sw.iter().map(|(k, t)| J::s(&format!("step {} -> thread {}", k, t))).collect()))
            .set("what", J::s(what))
            .set("expected", results_json(&expected))
            .set("got", results_json(got))
    };
    // DFS over forced switches
    let mut stack: Vec<Vec<(usize, usize)>> = vec![vec![]];
    let mut schedules = 0usize;
    let mut overlapped = 0usize;
    let mut outcomes: std::collections::BTreeSet<String> = std::collections::BTreeSet::new();
    let mut capped = false;
    while let Some(sw) = stack.pop() {
        if schedules >= max_schedules {
            capped = true;
            break;
        }
        let ex = run_once(sc, &re, &sw);
        schedules += 1;
        st.add("evaluations", 1);
        st.add("states", ex.trace.len() as u64);
        st.add("transitions", ex.trace.len() as u64);
        st.add("validated", 1);
        if let Some(d) = &ex.diverged {
            st.error(format!("{} ({} /{}/)", d, sc.name, sc.pattern));
            continue;
        }
        // overlap: some thread ran while another had started and not finished
        let mut started: Vec<bool> = vec![false; sc.threads.len()];
        let mut any_overlap = false;
        for (tid, en) in &ex.trace {
            if started.iter().enumerate().any(|(t, s)| *s && t != *tid && en.contains(&t)) {
                any_overlap = true;
            }
            started[*tid] = true;
        }
        if any_overlap {
            overlapped += 1;
            st.add("nontrivial", 1);
        }
        outcomes.insert(results_json(&ex.results).compact());
        if ex.results != expected {
            st.violation(&run.known, "C19", &format!("concurrent result differs from sequential use ({})", sc.name), sw.len() * 100 + sc.pattern.len(), case("a query's result under this schedule differs from its sequential result on a fresh compile", &sw, &ex.results));
        }
        if ex.fingerprint_after != fp0 {
            st.violation(&run.known, "C19", "compiled program changed by searching", sw.len() * 100 + sc.pattern.len(), case("the compiled program's fingerprint changed", &sw, &ex.results));
        }
        if sw.len() == 1 && schedules % 7 == 0 {
            st.sample(|| case("result equals sequential use", &sw, &ex.results).set("steps", J::u(ex.trace.len() as u64)));
        }
        // children: one more forced switch after the last one
        if preemptions(&sw, &ex.trace) < bound {
            let from = sw.last().map(|(k, _)| k + 1).unwrap_or(0);
            for k in (from..ex.trace.len()).rev() {
                let (tid, en) = &ex.trace[k];
                for &t in en.iter().rev() {
                    if t != *tid {
                        let mut c = sw.clone();
                        c.push((k, t));
                        stack.push(c);
                    }
                }
            }
        }
    }
    st.add("schedules", schedules as u64);
    st.add("schedules_with_overlap", overlapped as u64);
    st.add("scenarios", 1);
    if outcomes.len() > 1 {
        st.add("scenarios_with_several_outcomes", 1);
    }
    if capped {
        st.add("scenarios_capped", 1);
    }
}

/// (3) every ordered history of up to three queries on one Regex: each result equals a fresh one.
fn histories(run: &Run, st: &mut Stats) {
    // case-insensitive backreferences canonicalize at match time: queries whose characters alias when a
    // code point is truncated (U+10400 / U+0400, U+1E900 / U+E900, U+104B0 / U+04B0) or fold across planes
    let fold_menu: Vec<(&str, usize, Mode)> = vec![
        ("\u{428}\u{448}", 0, subject::BT),
        ("\u{400}\u{428}", 0, subject::BT),
        ("\u{10400}\u{10428}", 0, subject::BT),
        ("\u{10428}\u{10400}", 0, subject::PIKE),
        ("\u{448}\u{428}", 0, subject::PIKE),
        ("k\u{212A}", 0, subject::BT),
        ("s\u{17F}", 0, subject::BT),
        ("Kk", 0, subject::BT_ASCII),
        ("\u{1E900}\u{1E922}", 0, subject::BT),
        ("\u{E900}\u{E922}", 0, subject::BT),
        ("\u{4B0}\u{4B1}", 0, subject::BT),
        ("\u{104B0}\u{104D8}", 0, subject::BT),
    ];
    histories_over(run, st, &fold_menu, &[("^(.)\\1$", "iu"), ("^(.)\\1$", "i"), ("(?<=\\1(.))$", "iu")]);
    let menu: Vec<(&str, usize, Mode)> = vec![
        ("aab", 0, subject::BT),
        ("aaa", 0, subject::BT),
        ("", 0, subject::BT),
        ("xaab", 1, subject::BT),
        ("aab", 0, subject::PIKE),
        ("b", 0, subject::BT_ASCII),
        ("abcabc", 2, subject::BT),
        ("é", 0, subject::BT),
        ("aab", 4, subject::BT),
        ("bbbb", 0, subject::PIKE),
        ("ab ab", 0, subject::BT),
        ("AAB", 0, subject::BT),
    ];
    let pats = [("(a+)+b", ""), ("(?:(a)|b)*", ""), ("(?<=(a))b", ""), ("(.)\\1?", "i"), ("\\b", ""), ("a*?", ""), ("(a)|(b)", ""), ("[^a]", "u")];
    histories_over(run, st, &menu, &pats);
}

fn histories_over(run: &Run, st: &mut Stats, menu: &[(&str, usize, Mode)], pats: &[(&str, &str)]) {
    for &(p, f) in pats {
        let re = regress::Regex::with_flags(p, f).unwrap();
        let fresh: Vec<Vec<SMatch>> = menu
            .iter()
            .map(|(h, s, m)| {
                let r2 = regress::Regex::with_flags(p, f).unwrap();
                match subject::find_n(&r2, *m, h, *s, 16, 10_000_000) {
                    subject::Outcome::Ok(v) => v,
                    _ => vec![],
                }
            })
            .collect();
        let fp0 = subject::fingerprint(&re);
        let n = menu.len();
        for a in 0..n {
            for b in 0..=n {
                for c in 0..=n {
                    if b == n && c != n {
                        continue;
                    }
                    let hist: Vec<usize> = [Some(a), if b < n { Some(b) } else { None }, if c < n { Some(c) } else { None }].into_iter().flatten().collect();
                    st.add("evaluations", 1);
                    st.add("validated", 1);
                    st.add("histories", 1);
                    // a history is non-trivial when at least one of its queries matches (counted once per history)
                    let mut any_match = false;
                    for (pos, &qi) in hist.iter().enumerate() {
                        let (h, s, m) = menu[qi];
                        let got = match subject::find_n(&re, m, h, s, 16, 10_000_000) {
                            subject::Outcome::Ok(v) => v,
                            _ => vec![SMatch { start: usize::MAX, end: 0, caps: vec![] }],
                        };
                        if !got.is_empty() && !any_match {
                            any_match = true;
                            st.add("nontrivial", 1);
                        }
                        if got != fresh[qi] {
                            let case = J::obj().set("kind", J::s("history")).set("pattern", J::s(p)).set("flags", J::s(f)).set("history", J::Arr(hist.iter().map(|&i| J::s(&format!("{:?}@{} {:?}", menu[i].0, menu[i].1, menu[i].2))).collect())).set("position", J::u(pos as u64)).set("what", J::s("a query's result depends on what was searched before")).set("expected", crate::sweep::seq_json(&fresh[qi])).set("got", crate::sweep::seq_json(&got));
                            st.violation(&run.known, "C19", "result depends on the search history", hist.len() * 10 + p.len(), case);
                        }
                    }
                    if subject::fingerprint(&re) != fp0 {
                        let case = J::obj().set("kind", J::s("history")).set("pattern", J::s(p)).set("what", J::s("the compiled program changed"));
                        st.violation(&run.known, "C19", "compiled program changed by searching", p.len(), case);
                    }
                }
            }
        }
    }
}

/// (3c) histories over several Regex objects (process-wide state written by one regex's search and trusted
/// by another's): every sequence of 1-3 steps from a menu of (regex, haystack) pairs whose regexes differ in
/// mode, executed in order on one thread, and the same with the first step's iterator kept alive and
/// resumed after the later steps. Oracle: each step's result on a fresh process-state-free reference, i.e.
/// the reference matcher.
fn cross_regex_histories(run: &Run, st: &mut Stats) {
    let menu: Vec<(&str, &str, &str)> = vec![
        // the second match needs the folding mode again (an iterator resumed after another regex searched)
        ("(\\u017f)\\1", "iu", "\u{17f}s \u{17f}S s\u{17f}"),
        ("(\\u017f)\\1", "i", "\u{17f}s \u{17f}S s\u{17f}"),
        ("(k)\\1", "iu", "k\u{212A} \u{212A}k kK"),
        ("(k)\\1", "i", "k\u{212A} \u{212A}k kK"),
        ("x", "", "xyz x"),
        ("\\bs\\b", "iu", "\u{17f} s"),
        ("\\bs\\b", "i", "\u{17f} s"),
        ("[a-z]+", "iv", "K\u{212A}k"),
        ("(.)\\1", "is", "aA\u{10428}\u{10400}"),
    ];
    let compiled: Vec<regress::Regex> = menu.iter().map(|(p, f, _)| regress::Regex::with_flags(p, *f).unwrap()).collect();
    let expected: Vec<Vec<SMatch>> = menu
        .iter()
        .map(|(p, f, h)| {
            let pat: Vec<u32> = p.chars().map(|c| c as u32).collect();
            let fl = crate::ast::Flags::parse(f);
            let ast = crate::refparse::parse(&pat, fl).expect("menu pattern parses");
            let prog = crate::refmatch::compile(&ast, fl).expect("menu pattern in the reference");
            let hay = crate::enumerate::Hay::new(h.chars().map(|c| c as u32).collect());
            crate::sweep::ref_table(&prog, &hay, 5_000_000).all_from(0, &hay)
        })
        .collect();
    let n = menu.len();
    let mut report = |st: &mut Stats, hist: &[usize], pos: usize, live: bool, got: &Vec<SMatch>| {
        let qi = hist[pos];
        let case = J::obj()
            .set("kind", J::s("cross_regex_history"))
            .set("history", J::Arr(hist.iter().map(|&i| J::s(&format!("/{}/{} on {:?}", menu[i].0, menu[i].1, menu[i].2))).collect()))
            .set("position", J::u(pos as u64))
            .set("first_step_iterator_kept_alive", J::Bool(live))
            .set("what", J::s("a search's result depends on searches made with other Regex objects"))
            .set("expected", crate::sweep::seq_json(&expected[qi]))
            .set("got", crate::sweep::seq_json(got));
        st.violation(&run.known, "C19", if live { "result depends on other regexes' searches (iterator alive across them)" } else { "result depends on other regexes' searches" }, hist.len() * 10, case);
    };
    for a in 0..n {
        for b in 0..=n {
            for c in 0..=n {
                if b == n && c != n {
                    continue;
                }
                let hist: Vec<usize> = [Some(a), if b < n { Some(b) } else { None }, if c < n { Some(c) } else { None }].into_iter().flatten().collect();
                st.add("evaluations", 2);
                st.add("validated", 2);
                st.add("cross_regex_histories", 2);
                st.add("nontrivial", 2);
                // in order
                for (pos, &qi) in hist.iter().enumerate() {
                    let got: Vec<SMatch> = match subject::guarded(10_000_000, || compiled[qi].find_iter(menu[qi].2).map(|m| SMatch::from(&m)).collect::<Vec<SMatch>>()) {
                        subject::Outcome::Ok(v) => v,
                        _ => vec![SMatch { start: usize::MAX, end: 0, caps: vec![] }],
                    };
                    if got != expected[qi] {
                        report(st, &hist, pos, false, &got);
                    }
                }
                // first step's iterator kept alive: take its first match, run the other steps, then drain it
                if hist.len() > 1 {
                    let got0 = subject::guarded(10_000_000, || {
                        let mut it = compiled[hist[0]].find_iter(menu[hist[0]].2);
                        let mut out: Vec<SMatch> = Vec::new();
                        if let Some(m) = it.next() {
                            out.push(SMatch::from(&m));
                        }
                        for &qi in &hist[1..] {
                            let _ = compiled[qi].find_iter(menu[qi].2).count();
                        }
                        out.extend(it.map(|m| SMatch::from(&m)));
                        out
                    });
                    let got0 = match got0 {
                        subject::Outcome::Ok(v) => v,
                        _ => vec![SMatch { start: usize::MAX, end: 0, caps: vec![] }],
                    };
                    if got0 != expected[hist[0]] {
                        report(st, &hist, 0, true, &got0);
                    }
                }
            }
        }
    }
}

/// (3b) histories that reuse one buffer: the same allocation is refilled in place between two
/// searches with the same Regex (an address-keyed cache in the program would answer from memory).
fn buffer_reuse_histories(run: &Run, st: &mut Stats) {
    let pats = [("needle\\d+", ""), ("ab+c", ""), ("(a+)+b", ""), ("é|needle", ""), ("[^}]*\\}", ""), ("\\bfoo\\b", "i")];
    let texts = ["a line without the thing at all...", "here is needle42 and abbbc and fooé}", "NEEDLE7 abc foo {x} aab aaab éé    ", "                                   ", "needle1needle22needle333 ab abbc }}", "xxxxxxxxxxxxxxxxxxxxxxxxxxxxxxxabbc"];
    for (p, f) in pats {
        let re = regress::Regex::with_flags(p, f).unwrap();
        let fresh = |t: &str| -> Vec<SMatch> {
            let r2 = regress::Regex::with_flags(p, f).unwrap();
            r2.find_iter(t).map(|m| SMatch::from(&m)).collect()
        };
        for a in texts {
            for b in texts {
                for c in texts {
                    st.add("evaluations", 1);
                    st.add("validated", 1);
                    st.add("buffer_reuse_histories", 1);
                    let mut buf = String::with_capacity(64);
                    let mut results = Vec::new();
                    for t in [a, b, c] {
                        buf.clear();
                        buf.push_str(t);
                        let r: Vec<SMatch> = re.find_iter(&buf).map(|m| SMatch::from(&m)).collect();
                        results.push((t, r));
                    }
                    // in-place edit without reallocation
                    buf.make_ascii_uppercase();
                    let up = buf.clone();
                    let r_up: Vec<SMatch> = re.find_iter(&buf).map(|m| SMatch::from(&m)).collect();
                    results.push((up.as_str(), r_up));
                    if results.iter().any(|(_, r)| !r.is_empty()) {
                        st.add("nontrivial", 1);
                    }
                    for (t, r) in &results {
                        if *r != fresh(t) {
                            let case = J::obj().set("kind", J::s("history")).set("pattern", J::s(p)).set("flags", J::s(f)).set("history", J::Arr(vec![J::s(a), J::s(b), J::s(c), J::s("(upper-cased in place)")])).set("what", J::s("a search of a reused buffer returns a result that differs from a fresh Regex on the same text")).set("text", J::s(t)).set("expected", crate::sweep::seq_json(&fresh(t))).set("got", crate::sweep::seq_json(r));
                            st.violation(&run.known, "C19", "result depends on the search history (reused buffer)", p.len(), case);
                        }
                    }
                }
            }
        }
    }
}

/// (4) Free-running monitor - NOT part of the exhaustive exploration and labelled as such: the same
/// two-thread bodies on a *fresh* Regex per trial, released from a barrier without the scheduler. It
/// can see races inside one interpreted instruction (e.g. lazy initialisation on first use), which
/// the instruction-granularity scheduler cannot produce. A silent run proves nothing.
fn free_running_monitor(run: &Run, st: &mut Stats, trials: usize) {
    // two haystacks per case where the second differs: odd threads search the second (threads that hit
    // different parts of one shared table at the same moment)
    let alt: std::collections::HashMap<&str, &str> = [("HELLOWORLDhELLOWORLD", "ΑΒΓΔΕΖΗΘΙΚΛΜΝΞΟΠΡΣΤΥΦΧΨΩ"), ("ΑΒΓΔoΖΗΘ", "HELLOWORLDHELLOWORLD")].into_iter().collect();
    let cases = [("^\\p{Lu}+$", "u", "HELLOWORLDhELLOWORLD"), ("^[\\p{Lu}\\p{Nd}]+$", "u", "ΑΒΓΔoΖΗΘ"), ("\\{[^}]*\\}", "", "{x} and {y} now"), ("[a-zé]+", "", "café au lait"), ("(a+)+b", "", "aaab aab"), ("\\bk\\w*", "iu", "Kelvin \u{212A}k k"), ("(?<=\\d)x|y$", "m", "1x2x\ny")];
    for (p, f, h) in cases {
        let expected: Vec<SMatch> = regress::Regex::with_flags(p, f).unwrap().find_iter(h).map(|m| SMatch::from(&m)).collect();
        let h2: &str = alt.get(h).copied().unwrap_or(h);
        let expected2: Vec<SMatch> = regress::Regex::with_flags(p, f).unwrap().find_iter(h2).map(|m| SMatch::from(&m)).collect();
        let rounds = if h2 != h { 200 } else { 1 };
        let mut wrong = 0u64;
        let mut first_wrong: Option<Vec<SMatch>> = None;
        for _ in 0..trials {
            let re = Arc::new(regress::Regex::with_flags(p, f).unwrap());
            let bar = Arc::new(std::sync::Barrier::new(4));
            let hs: Vec<_> = (0..4)
                .map(|ti| {
                    let re = re.clone();
                    let bar = bar.clone();
                    let (text, exp) = if ti % 2 == 1 { (h2, expected2.clone()) } else { (h, expected.clone()) };
                    std::thread::spawn(move || {
                        bar.wait();
                        let mut bad: Option<Vec<SMatch>> = None;
                        for _ in 0..rounds {
                            let r = re.find_iter(text).map(|m| SMatch::from(&m)).collect::<Vec<SMatch>>();
                            if r != exp && bad.is_none() {
                                bad = Some(r);
                            }
                        }
                        bad
                    })
                })
                .collect();
            for hd in hs {
                let r = hd.join().unwrap_or_default();
                st.add("monitor_searches", rounds as u64);
                if let Some(r) = r {
                    wrong += 1;
                    if first_wrong.is_none() {
                        first_wrong = Some(r);
                    }
                }
            }
        }
        if let Some(w) = first_wrong {
            let case = J::obj().set("kind", J::s("free_running")).set("pattern", J::s(p)).set("flags", J::s(f)).set("haystack", J::s(h)).set("what", J::s("four threads searching one freshly compiled Regex at the same moment: a result differs from sequential use")).set("wrong_results", J::u(wrong)).set("trials", J::u(trials as u64)).set("expected", crate::sweep::seq_json(&expected)).set("got", crate::sweep::seq_json(&w));
            st.violation(&run.known, "C19", "free-running monitor: concurrent first use differs from sequential use", p.len(), case);
        }
    }
}

pub fn c19(run: &mut Run) -> Stats {
    static_assertions();
    let thorough = run.thorough();
    let bound = if thorough { 3 } else { 2 };
    let max_schedules = if thorough { 60_000 } else { 12_000 };
    let mut st = Stats::default();
    let scs = scenarios(thorough);
    // determinism gate: one recorded schedule replayed twice must give identical observations
    {
        let sc = &scs[0];
        let re = Arc::new(regress::Regex::with_flags(&sc.pattern, sc.flags.as_str()).unwrap());
        let base = run_once(sc, &re, &[]);
        let k = base.trace.len() / 2;
        let other = base.trace[k].1.iter().copied().find(|t| *t != base.trace[k].0);
        if let Some(t) = other {
            let a = run_once(sc, &re, &[(k, t)]);
            let b = run_once(sc, &re, &[(k, t)]);
            if a.trace != b.trace || a.results != b.results {
                st.error("determinism gate failed: the same schedule replayed twice gave different traces".into());
            }
            st.add("determinism_gate_replays", 2);
        }
    }
    for sc in &scs {
        explore_scenario(sc, bound, max_schedules, run, &mut st);
    }
    histories(run, &mut st);
    buffer_reuse_histories(run, &mut st);
    cross_regex_histories(run, &mut st);
    free_running_monitor(run, &mut st, if thorough { 3000 } else { 400 });
    if st.get("scenarios_capped") > 0 {
        run.caps.push(format!("{} scenarios stopped at the cap of {} schedules (explored depth-first in preemption order)", st.get("scenarios_capped"), max_schedules));
    }
    run.rule = format!(
        "(1) compile-time: Regex, Match, Error are Send + Sync (tools/sendsync is type-checked first; a failure there is reported as the violation); (2) {} scenarios (8 regexes exercising nested loops, captures, lookaround with saved stack, 1-char loops, backreferences, both executors and the ASCII entry point) x threads on one shared &Regex or on clones: every schedule with at most {} preemption(s), scheduling points = every interpreted instruction / backtrack pop (hook H1), real OS threads under a baton; oracle = sequential result on a fresh compile and an unchanged program fingerprint; (3) every ordered history of 1-3 steps over a menu of 9 (regex, haystack) pairs whose regexes differ in mode (process-wide state written by one regex's search and trusted by another's), in order and with the first step's iterator kept alive across the others, against the reference matcher; every ordered history of 1-3 queries from a 12-query menu on one Regex x 8 regexes, the same over a 12-query menu of case-insensitive backreference queries whose characters alias under truncation or fold across planes x 3 regexes, and every history of three texts written into one reused buffer (same allocation) plus an in-place edit, 6 regexes x 6^3 texts; (4) a free-running monitor (NOT exhaustive, labelled): four threads released from a barrier on a freshly compiled Regex, a few hundred trials, for races inside one instruction; non-trivial = the schedule really overlaps two threads inside the program / the query matches",
        scs.len(),
        bound
    );
    run.assumptions = vec![
        "preemption only at bytecode-instruction granularity; finer-grained races would need a data-race detector (not part of this exploration)".into(),
        "expected number of distinct outcomes per scenario is 1 (the property); seeded mutants show the harness can observe a collision".into(),
    ];
    st
}
