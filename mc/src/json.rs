//! Minimal JSON value, writer and parser (no external crates needed).
use std::fmt::Write;

#[derive(Clone, Debug, PartialEq)]
pub enum J {
    Null,
    Bool(bool),
    Int(i64),
    Float(f64),
    Str(String),
    Arr(Vec<J>),
    Obj(Vec<(String, J)>),
}

impl J {
    pub fn obj() -> J {
        J::Obj(Vec::new())
    }
    pub fn set(mut self, k: &str, v: J) -> J {
        self.put(k, v);
        self
    }
    pub fn put(&mut self, k: &str, v: J) {
        if let J::Obj(o) = self {
            if let Some(e) = o.iter_mut().find(|(kk, _)| kk == k) {
                e.1 = v;
            } else {
                o.push((k.to_string(), v));
            }
        }
    }
    pub fn get(&self, k: &str) -> Option<&J> {
        match self {
            J::Obj(o) => o.iter().find(|(kk, _)| kk == k).map(|(_, v)| v),
            _ => None,
        }
    }
    pub fn str(&self) -> Option<&str> {
        match self {
            J::Str(s) => Some(s),
            _ => None,
        }
    }
    pub fn int(&self) -> Option<i64> {
        match self {
            J::Int(i) => Some(*i),
            J::Float(f) => Some(*f as i64),
            _ => None,
        }
    }
    pub fn arr(&self) -> Option<&Vec<J>> {
        match self {
            J::Arr(a) => Some(a),
            _ => None,
        }
    }
    pub fn bool(&self) -> Option<bool> {
        match self {
            J::Bool(b) => Some(*b),
            _ => None,
        }
    }
    pub fn s(x: &str) -> J {
        J::Str(x.to_string())
    }
    pub fn u(x: u64) -> J {
        J::Int(x as i64)
    }
    pub fn cps(x: &[u32]) -> J {
        J::Arr(x.iter().map(|&c| J::Int(c as i64)).collect())
    }
    pub fn to_cps(&self) -> Option<Vec<u32>> {
        self.arr().map(|a| a.iter().filter_map(|j| j.int()).map(|i| i as u32).collect())
    }

    fn write(&self, out: &mut String, indent: usize, pretty: bool) {
        match self {
            J::Null => out.push_str("null"),
            J::Bool(b) => out.push_str(if *b { "true" } else { "false" }),
            J::Int(i) => {
                let _ = write!(out, "{}", i);
            }
            J::Float(f) => {
                if f.is_finite() {
                    let _ = write!(out, "{}", f);
                } else {
                    out.push_str("null")
                }
            }
            J::Str(s) => write_str(out, s),
            J::Arr(a) => {
                out.push('[');
                let simple = a.iter().all(|j| !matches!(j, J::Arr(_) | J::Obj(_)));
                for (i, v) in a.iter().enumerate() {
                    if i > 0 {
                        out.push(',');
                    }
                    if pretty && !simple {
                        out.push('\n');
                        out.push_str(&" ".repeat(indent + 1));
                    } else if i > 0 {
                        out.push(' ');
                    }
                    v.write(out, indent + 1, pretty);
                }
                if pretty && !simple && !a.is_empty() {
                    out.push('\n');
                    out.push_str(&" ".repeat(indent));
                }
                out.push(']');
            }
            J::Obj(o) => {
                out.push('{');
                for (i, (k, v)) in o.iter().enumerate() {
                    if i > 0 {
                        out.push(',');
                    }
                    if pretty {
                        out.push('\n');
                        out.push_str(&" ".repeat(indent + 1));
                    } else if i > 0 {
                        out.push(' ');
                    }
                    write_str(out, k);
                    out.push_str(": ");
                    v.write(out, indent + 1, pretty);
                }
                if pretty && !o.is_empty() {
                    out.push('\n');
                    out.push_str(&" ".repeat(indent));
                }
                out.push('}');
            }
        }
    }
    pub fn pretty(&self) -> String {
        let mut s = String::new();
        self.write(&mut s, 0, true);
        s.push('\n');
        s
    }
    pub fn compact(&self) -> String {
        let mut s = String::new();
        self.write(&mut s, 0, false);
        s
    }
}

fn write_str(out: &mut String, s: &str) {
    out.push('"');
    for c in s.chars() {
        match c {
            '"' => out.push_str("\\\""),
            '\\' => out.push_str("\\\\"),
            '\n' => out.push_str("\\n"),
            '\r' => out.push_str("\\r"),
            '\t' => out.push_str("\\t"),
            c if (c as u32) < 0x20 => {
                let _ = write!(out, "\\u{:04x}", c as u32);
            }
            c => out.push(c),
        }
    }
    out.push('"');
}

pub fn parse(s: &str) -> Result<J, String> {
    let b: Vec<char> = s.chars().collect();
    let mut p = 0usize;
    let v = parse_val(&b, &mut p)?;
    skip_ws(&b, &mut p);
    if p != b.len() {
        return Err(format!("trailing data at {}", p));
    }
    Ok(v)
}

fn skip_ws(b: &[char], p: &mut usize) {
    while *p < b.len() && b[*p].is_whitespace() {
        *p += 1;
    }
}

fn parse_val(b: &[char], p: &mut usize) -> Result<J, String> {
    skip_ws(b, p);
    if *p >= b.len() {
        return Err("eof".into());
    }
    match b[*p] {
        '{' => {
            *p += 1;
            let mut o = Vec::new();
            skip_ws(b, p);
            if *p < b.len() && b[*p] == '}' {
                *p += 1;
                return Ok(J::Obj(o));
            }
            loop {
                skip_ws(b, p);
                let k = match parse_val(b, p)? {
                    J::Str(s) => s,
                    _ => return Err("key".into()),
                };
                skip_ws(b, p);
                if *p >= b.len() || b[*p] != ':' {
                    return Err("colon".into());
                }
                *p += 1;
                let v = parse_val(b, p)?;
                o.push((k, v));
                skip_ws(b, p);
                if *p < b.len() && b[*p] == ',' {
                    *p += 1;
                    continue;
                }
                if *p < b.len() && b[*p] == '}' {
                    *p += 1;
                    return Ok(J::Obj(o));
                }
                return Err(format!("object at {}", p));
            }
        }
        '[' => {
            *p += 1;
            let mut a = Vec::new();
            skip_ws(b, p);
            if *p < b.len() && b[*p] == ']' {
                *p += 1;
                return Ok(J::Arr(a));
            }
            loop {
                a.push(parse_val(b, p)?);
                skip_ws(b, p);
                if *p < b.len() && b[*p] == ',' {
                    *p += 1;
                    continue;
                }
                if *p < b.len() && b[*p] == ']' {
                    *p += 1;
                    return Ok(J::Arr(a));
                }
                return Err(format!("array at {}", p));
            }
        }
        '"' => {
            *p += 1;
            let mut s = String::new();
            while *p < b.len() {
                let c = b[*p];
                *p += 1;
                match c {
                    '"' => return Ok(J::Str(s)),
                    '\\' => {
                        let e = b[*p];
                        *p += 1;
                        match e {
                            'n' => s.push('\n'),
                            'r' => s.push('\r'),
                            't' => s.push('\t'),
                            'b' => s.push('\u{8}'),
                            'f' => s.push('\u{c}'),
                            'u' => {
                                let h: String = b[*p..*p + 4].iter().collect();
                                *p += 4;
                                let mut cp = u32::from_str_radix(&h, 16).map_err(|e| e.to_string())?;
                                if (0xD800..0xDC00).contains(&cp) && *p + 6 <= b.len() && b[*p] == '\\' && b[*p + 1] == 'u' {
                                    let h2: String = b[*p + 2..*p + 6].iter().collect();
                                    let lo = u32::from_str_radix(&h2, 16).map_err(|e| e.to_string())?;
                                    if (0xDC00..0xE000).contains(&lo) {
                                        *p += 6;
                                        cp = 0x10000 + ((cp - 0xD800) << 10) + (lo - 0xDC00);
                                    }
                                }
                                s.push(char::from_u32(cp).unwrap_or('\u{FFFD}'));
                            }
                            other => s.push(other),
                        }
                    }
                    c => s.push(c),
                }
            }
            Err("unterminated string".into())
        }
        't' if b[*p..].starts_with(&['t', 'r', 'u', 'e']) => {
            *p += 4;
            Ok(J::Bool(true))
        }
        'f' if b[*p..].starts_with(&['f', 'a', 'l', 's', 'e']) => {
            *p += 5;
            Ok(J::Bool(false))
        }
        'n' if b[*p..].starts_with(&['n', 'u', 'l', 'l']) => {
            *p += 4;
            Ok(J::Null)
        }
        _ => {
            let st = *p;
            while *p < b.len() && (b[*p].is_ascii_digit() || matches!(b[*p], '-' | '+' | '.' | 'e' | 'E')) {
                *p += 1;
            }
            let t: String = b[st..*p].iter().collect();
            if let Ok(i) = t.parse::<i64>() {
                Ok(J::Int(i))
            } else {
                t.parse::<f64>().map(J::Float).map_err(|e| format!("number {:?}: {}", t, e))
            }
        }
    }
}
