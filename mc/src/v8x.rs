//! Oracle self-check support: dump enumerated cases with the reference matcher's verdicts so that
//! tools/v8_crosscheck.js can replay them through V8 (model vs. an independent ES implementation).
use crate::ast::*;
use crate::enumerate;
use crate::print;
use crate::profiles;
use crate::refmatch::{self, RefResult};
use std::io::Write;

fn js_escape(cps: &[u32]) -> String {
    let mut s = String::new();
    for &c in cps {
        if (0x20..0x7F).contains(&c) && c != '"' as u32 && c != '\\' as u32 {
            s.push(char::from_u32(c).unwrap());
        } else if c <= 0xFFFF {
            s.push_str(&format!("\\u{:04x}", c));
        } else {
            let v = c - 0x10000;
            s.push_str(&format!("\\u{:04x}\\u{:04x}", 0xD800 + (v >> 10), 0xDC00 + (v & 0x3FF)));
        }
    }
    s
}

fn has_dup_names(n: &Node) -> bool {
    let mut names = Vec::new();
    n.group_names(&mut names);
    let mut seen = std::collections::HashSet::new();
    names.into_iter().flatten().any(|x| !seen.insert(x))
}

fn has_mods(n: &Node) -> bool {
    let mut r = false;
    n.walk(&mut |x| {
        if matches!(x, Node::Mods { .. }) {
            r = true
        }
    });
    r
}

pub fn dump(profile: &str, size: usize, hay_len: usize, out: &str) -> i32 {
    let sp = profiles::by_name(profile).expect("profile");
    let by = enumerate::enumerate(&sp.profile, size);
    let hays = enumerate::all_hays(&sp.alphabet, hay_len);
    let mut f = std::io::BufWriter::new(std::fs::File::create(out).unwrap());
    let mut n = 0u64;
    for list in &by {
        for ast in list {
            if has_dup_names(ast) || has_mods(ast) {
                continue;
            }
            for &fl in &sp.flags {
                if ast.validate(fl).is_err() {
                    continue;
                }
                let Ok(prog) = refmatch::compile(ast, fl) else { continue };
                let pat = print::print(ast);
                // V8 works on UTF-16 code units without u/v: keep legacy-mode cases within the BMP
                let astral = |v: &[u32]| v.iter().any(|&c| c > 0xFFFF);
                if !fl.unicode_mode() && astral(&pat) {
                    continue;
                }
                for hay in &hays {
                    if !fl.unicode_mode() && astral(&hay.cps) {
                        continue;
                    }
                    // unit offsets of code point indices
                    let mut uoff = Vec::with_capacity(hay.cps.len() + 1);
                    let mut u = 0usize;
                    for &c in &hay.cps {
                        uoff.push(u);
                        u += if c > 0xFFFF { 2 } else { 1 };
                    }
                    uoff.push(u);
                    let mut results = Vec::new();
                    let mut cut = false;
                    for s in 0..=hay.cps.len() {
                        let (r, _) = prog.find_from(&hay.cps, s, 2_000_000);
                        match r {
                            RefResult::Cut => {
                                cut = true;
                                break;
                            }
                            RefResult::NoMatch => results.push(format!("[{},null]", uoff[s])),
                            RefResult::Match(m) => {
                                let caps: Vec<String> = m.caps.iter().map(|c| match c {
                                    Some((a, b)) => format!("[{},{}]", uoff[*a], uoff[*b]),
                                    None => "null".to_string(),
                                }).collect();
                                results.push(format!("[{},[{},{}],[{}]]", uoff[s], uoff[m.start], uoff[m.end], caps.join(",")));
                            }
                        }
                    }
                    if cut {
                        continue;
                    }
                    writeln!(f, "{{\"p\":\"{}\",\"f\":\"{}\",\"h\":\"{}\",\"r\":[{}]}}", js_escape(&pat), fl.to_string(), js_escape(&hay.cps), results.join(",")).unwrap();
                    n += 1;
                }
            }
        }
    }
    eprintln!("dumped {} (pattern, flags, haystack) lines for profile {}", n, profile);
    0
}

/// Same for the class expressions of C12 (the v-mode set semantics against V8).
pub fn dump_classes(out: &str) -> i32 {
    let mut f = std::io::BufWriter::new(std::fs::File::create(out).unwrap());
    let mut hays = enumerate::all_hays(&crate::c12::universe(), 1);
    for s in ["ab", "ba", "ka", "aa", "kb", "Ab", "aB"] {
        hays.push(enumerate::Hay::new(s.chars().map(|c| c as u32).collect()));
    }
    let mut jobs: Vec<(Node, Flags)> = Vec::new();
    for vc in crate::c12::v_classes(1, false) {
        for fl in ["v", "iv"] {
            jobs.push((Node::VClass(vc.clone()), Flags::parse(fl)));
        }
    }
    for c in crate::c12::legacy_classes() {
        for fl in ["", "i", "u", "iu"] {
            jobs.push((c.clone(), Flags::parse(fl)));
        }
    }
    let mut n = 0u64;
    for (class, fl) in jobs {
        for ast in [Node::Cat(vec![Node::AssertStart, class.clone(), Node::AssertEnd]), class.clone()] {
            if ast.validate(fl).is_err() {
                continue;
            }
            let Ok(prog) = refmatch::compile(&ast, fl) else { continue };
            let pat = print::print(&ast);
            for hay in &hays {
                let mut results = Vec::new();
                for s in 0..=hay.cps.len() {
                    let (r, _) = prog.find_from(&hay.cps, s, 2_000_000);
                    match r {
                        RefResult::Cut => {}
                        RefResult::NoMatch => results.push(format!("[{},null]", s)),
                        RefResult::Match(m) => results.push(format!("[{},[{},{}],[]]", s, m.start, m.end)),
                    }
                }
                writeln!(f, "{{\"p\":\"{}\",\"f\":\"{}\",\"h\":\"{}\",\"r\":[{}]}}", js_escape(&pat), fl.to_string(), js_escape(&hay.cps), results.join(",")).unwrap();
                n += 1;
            }
        }
    }
    eprintln!("dumped {} class lines", n);
    0
}
