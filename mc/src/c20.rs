//! C20: the Pattern-trait searcher honours the std Searcher / ReverseSearcher contract.
//! (Built with feature pattern on the nightly toolchain.)
#![cfg(feature = "pattern")]
use crate::enumerate::{self, Hay};
use crate::json::J;
use crate::report::{Run, Stats};
use crate::subject::{self, Outcome};
use rayon::prelude::*;
use std::str::pattern::{Pattern, ReverseSearcher, SearchStep, Searcher};

#[derive(Clone, Copy, Debug, PartialEq, Eq)]
enum Step {
    M(usize, usize),
    R(usize, usize),
    D,
}

fn conv(s: SearchStep) -> Step {
    match s {
        SearchStep::Match(a, b) => Step::M(a, b),
        SearchStep::Reject(a, b) => Step::R(a, b),
        SearchStep::Done => Step::D,
    }
}

fn step_json(s: &Step) -> J {
    match s {
        Step::M(a, b) => J::s(&format!("Match({},{})", a, b)),
        Step::R(a, b) => J::s(&format!("Reject({},{})", a, b)),
        Step::D => J::s("Done"),
    }
}

/// Check one direction's stream prefix: adjacent from `origin`, boundaries; returns an error text.
fn check_stream(steps: &[Step], text: &str, forward: bool) -> Option<String> {
    let len = text.len();
    let mut edge = if forward { 0 } else { len };
    let mut done = false;
    for s in steps {
        match *s {
            Step::D => {
                if !done && edge != if forward { len } else { 0 } {
                    return Some(format!("Done reported with the {} steps covering only up to {}", if forward { "forward" } else { "backward" }, edge));
                }
                done = true;
            }
            Step::M(a, b) | Step::R(a, b) => {
                if done {
                    return Some("a step after Done".into());
                }
                if a > b || b > len {
                    return Some(format!("step range {}..{} invalid for haystack of length {}", a, b, len));
                }
                if !text.is_char_boundary(a) || !text.is_char_boundary(b) {
                    return Some(format!("step range {}..{} not on char boundaries", a, b));
                }
                if let Step::R(x, y) = *s {
                    if x == y {
                        return Some(format!("empty Reject({},{})", x, y));
                    }
                }
                if forward {
                    if a != edge {
                        return Some(format!("forward step {:?} is not adjacent to the previous one (expected start {})", s, edge));
                    }
                    edge = b;
                } else {
                    if b != edge {
                        return Some(format!("backward step {:?} is not adjacent to the previous one (expected end {})", s, edge));
                    }
                    edge = a;
                }
            }
        }
    }
    None
}

/// Histories: sequences of calls F (next) / B (next_back) with at most two direction switches; each
/// block is either a small count or "until Done + 2".
fn histories() -> Vec<Vec<(bool, usize)>> {
    // (forward?, calls) blocks; usize::MAX = until Done plus two more calls
    let counts = [1usize, 2, 3, usize::MAX];
    let mut out = Vec::new();
    for first in [true, false] {
        out.push(vec![(first, usize::MAX)]);
        for &a in &counts[..3] {
            out.push(vec![(first, a), (!first, usize::MAX), (first, usize::MAX)]);
            for &b in &counts[..3] {
                out.push(vec![(first, a), (!first, b), (first, usize::MAX), (!first, usize::MAX)]);
            }
        }
    }
    out
}

fn run_history<'r, 't>(re: &'r regress::Regex, text: &'t str, hist: &[(bool, usize)]) -> (Vec<Step>, Vec<Step>, Vec<(bool, Step)>) {
    let mut s = re.into_searcher(text);
    let mut fwd = Vec::new();
    let mut bwd = Vec::new();
    let mut all = Vec::new();
    for &(forward, n) in hist {
        let mut calls = 0;
        let mut dones = 0;
        loop {
            if n != usize::MAX && calls >= n {
                break;
            }
            let st = conv(if forward { s.next() } else { s.next_back() });
            calls += 1;
            all.push((forward, st));
            if forward {
                fwd.push(st)
            } else {
                bwd.push(st)
            }
            if st == Step::D {
                dones += 1;
                if n == usize::MAX && dones >= 3 {
                    break;
                }
                if n != usize::MAX {
                    // keep calling up to n
                }
            }
            if calls > 4 * text.len() + 16 {
                all.push((forward, Step::R(usize::MAX, usize::MAX)));
                break;
            }
        }
    }
    (fwd, bwd, all)
}

pub fn c20(run: &mut Run) -> Stats {
    let thorough = run.thorough();
    let pats: Vec<(&str, &str)> = vec![
        ("a", ""), ("1", ""), ("é", ""), ("😀", "u"), ("\\d", ""), ("\\d+", ""), ("\\d*", ""), ("a*", ""), ("(?:)", ""), ("\\b", ""), ("$", ""), ("^", ""), ("^", "m"), ("(?<=a)", ""), ("(?<=1)a", ""), ("(?<!a)1", ""), ("a|", ""), ("|a", ""), ("a|1", ""), ("[aé]", ""),
        ("[^a]", ""), (".", ""), (".", "u"), ("..", "u"), ("é*", ""), ("(a)\\1", ""), ("a?1", ""), ("1(?=a)", ""), ("\\B", ""), ("x", ""), ("a+?", ""), ("(?:a|é)*", ""), ("\\W", "u"), ("x*", ""), ("\\ba", ""), ("(?<!a)a", ""), ("^a", ""), ("a$", ""), ("\\Ba", ""), (".*\\S", ""), (".*.", "u"), ("[^1]+(?=.)", ""), (".*?[^a]", "u"), ("(.)\\1", "i"), ("(.)\\1", "iu"),
    ];
    let alphabet: Vec<u32> = vec!['a' as u32, '1' as u32, 'é' as u32, 0x1F600];
    let hays: Vec<Hay> = enumerate::all_hays(&alphabet, if thorough { 4 } else { 3 });
    // fold partners of different encoded lengths (the end of a case-insensitive backreference must land on a
    // char boundary): appended to the haystack list, explored by every regex
    let mut hays = hays;
    hays.extend(enumerate::all_hays(&[0x2C65, 0x23A, 'k' as u32, 0x212A, 0x20AC], 3).into_iter().filter(|h| h.cps.len() >= 2));
    let hays = hays;
    let hists = histories();
    let known = run.known.clone();
    let compiled: Vec<(regress::Regex, &str, &str)> = pats.iter().map(|(p, f)| (regress::Regex::with_flags(p, *f).unwrap(), *p, *f)).collect();
    let jobs: Vec<(usize, usize)> = (0..compiled.len()).flat_map(|i| (0..hays.len()).map(move |j| (i, j))).collect();
    let st = jobs
        .par_iter()
        .fold(Stats::default, |mut st, &(pi, hi)| {
            let (re, p, f) = &compiled[pi];
            let hay = &hays[hi];
            let text = hay.text.as_str();
            let expected: Vec<(usize, usize)> = match subject::guarded(5_000_000, || re.find_iter(text).map(|m| (m.start(), m.end())).collect::<Vec<(usize, usize)>>()) {
                Outcome::Ok(v) => v,
                other => {
                    let case = J::obj().set("kind", J::s("searcher")).set("pattern", J::s(p)).set("flags", J::s(f)).set("haystack", J::s(text)).set("what", J::s("find_iter itself panics or does not return on this input")).set("got", J::s(&format!("{:?}", other)));
                    st.violation(&known, "C20", "find_iter panics (the searcher is built on it)", p.len() + text.len(), case);
                    return st;
                }
            };
            let case = |what: &str, hist: &str, steps: J| J::obj().set("kind", J::s("searcher")).set("pattern", J::s(p)).set("flags", J::s(f)).set("haystack", J::s(text)).set("history", J::s(hist)).set("what", J::s(what)).set("steps", steps).set("find_iter", J::Arr(expected.iter().map(|(a, b)| J::s(&format!("{}..{}", a, b))).collect()));
            let mut pure_fwd: Option<Vec<Step>> = None;
            let mut pure_bwd: Option<Vec<Step>> = None;
            for hist in &hists {
                let hname: String = hist.iter().map(|(fw, n)| format!("{}{}", if *fw { "F" } else { "B" }, if *n == usize::MAX { "*".to_string() } else { n.to_string() })).collect::<Vec<_>>().join(" ");
                st.add("evaluations", 1);
                let got = subject::guarded(u64::MAX, || run_history(re, text, hist));
                let (fwd, bwd, all) = match got {
                    Outcome::Ok(x) => x,
                    Outcome::Panic(m) => {
                        st.violation(&known, "C20", "panic in the searcher", p.len() + text.len(), case("panic", &hname, J::s(&m)));
                        continue;
                    }
                    Outcome::Fuel => continue,
                };
                st.add("transitions", all.len() as u64);
                st.add("states", all.len() as u64);
                st.add("validated", 1);
                if !expected.is_empty() {
                    st.add("nontrivial", 1);
                }
                let all_json = J::Arr(all.iter().map(|(fw, s)| J::s(&format!("{}:{}", if *fw { "next" } else { "next_back" }, step_json(s).str().unwrap()))).collect());
                let kind = |w: &str| -> String { format!("{} [{}]", w, if hist.len() == 1 { if hist[0].0 { "forward only" } else { "backward only" } } else { "interleaved" }) };
                if all.iter().any(|(_, s)| *s == Step::R(usize::MAX, usize::MAX)) {
                    st.violation(&known, "C20", &kind("searcher does not reach Done"), p.len() + text.len(), case("the step stream does not end", &hname, all_json.clone()));
                    continue;
                }
                if let Some(e) = check_stream(&fwd, text, true) {
                    let w = e.split(' ').take(4).collect::<Vec<_>>().join(" ");
                    st.violation(&known, "C20", &kind(&format!("forward steps violate the Searcher contract: {}", w)), p.len() + text.len(), case(&e, &hname, all_json.clone()));
                }
                if let Some(e) = check_stream(&bwd, text, false) {
                    let w = e.split(' ').take(4).collect::<Vec<_>>().join(" ");
                    st.violation(&known, "C20", &kind(&format!("backward steps violate the ReverseSearcher contract: {}", w)), p.len() + text.len(), case(&e, &hname, all_json.clone()));
                }
                // forward Match steps = find_iter (only when the forward direction ran to Done)
                if fwd.contains(&Step::D) {
                    let ms: Vec<(usize, usize)> = fwd.iter().filter_map(|s| if let Step::M(a, b) = s { Some((*a, *b)) } else { None }).collect();
                    if ms != expected {
                        st.violation(&known, "C20", &kind("forward Match steps differ from find_iter"), p.len() + text.len(), case("forward Match steps differ from find_iter", &hname, all_json.clone()));
                    }
                }
                // backward Match steps = find_iter in reverse order (the reverse searcher reports the regex's
                // matches, i.e. the forward match sequence, from the back; rfind / rmatches / rsplit rely on it)
                if bwd.contains(&Step::D) {
                    let ms: Vec<(usize, usize)> = bwd.iter().filter_map(|s| if let Step::M(a, b) = s { Some((*a, *b)) } else { None }).collect();
                    let rev: Vec<(usize, usize)> = expected.iter().rev().copied().collect();
                    if ms != rev {
                        st.violation(&known, "C20", &kind("backward Match steps differ from find_iter reversed"), p.len() + text.len(), case("backward Match steps differ from find_iter in reverse order", &hname, all_json.clone()));
                    }
                }
                // each direction's stream is unaffected by calls in the other direction
                if hist.len() == 1 {
                    if hist[0].0 {
                        pure_fwd = Some(fwd.clone());
                    } else {
                        pure_bwd = Some(bwd.clone());
                    }
                } else {
                    if let Some(pf) = &pure_fwd {
                        if !fwd.iter().zip(pf.iter()).all(|(a, b)| a == b) {
                            st.violation(&known, "C20", "forward stream depends on interleaved next_back calls", p.len() + text.len(), case("forward steps differ from the forward-only run", &hname, all_json.clone()));
                        }
                    }
                    if let Some(pb) = &pure_bwd {
                        if !bwd.iter().zip(pb.iter()).all(|(a, b)| a == b) {
                            st.violation(&known, "C20", "backward stream depends on interleaved next calls", p.len() + text.len(), case("backward steps differ from the backward-only run", &hname, all_json.clone()));
                        }
                    }
                }
                if hist.len() == 1 && !expected.is_empty() && text.len() > 2 {
                    st.sample(|| case("contract holds", &hname, all_json.clone()));
                }
            }
            // str methods built on the searcher, against a model built from find_iter
            st.add("evaluations", 1);
            st.add("validated", 1);
            let r = subject::guarded(u64::MAX, || {
                let mut bad: Vec<(String, String, String)> = Vec::new();
                let exp_find = expected.first().map(|m| m.0);
                if text.find(re) != exp_find {
                    bad.push(("str::find".into(), format!("{:?}", exp_find), format!("{:?}", text.find(re))));
                }
                if text.contains(re) != !expected.is_empty() {
                    bad.push(("str::contains".into(), format!("{}", !expected.is_empty()), format!("{}", text.contains(re))));
                }
                let mi: Vec<(usize, &str)> = text.match_indices(re).collect();
                let exp_mi: Vec<(usize, &str)> = expected.iter().map(|&(a, b)| (a, &text[a..b])).collect();
                if mi != exp_mi {
                    bad.push(("str::match_indices".into(), format!("{:?}", exp_mi), format!("{:?}", mi)));
                }
                let ms: Vec<&str> = text.matches(re).collect();
                let exp_ms: Vec<&str> = expected.iter().map(|&(a, b)| &text[a..b]).collect();
                if ms != exp_ms {
                    bad.push(("str::matches".into(), format!("{:?}", exp_ms), format!("{:?}", ms)));
                }
                // split: pieces between consecutive matches
                let mut exp_split: Vec<&str> = Vec::new();
                let mut last = 0;
                for &(a, b) in &expected {
                    exp_split.push(&text[last..a]);
                    last = b;
                }
                exp_split.push(&text[last..]);
                let sp: Vec<&str> = text.split(re).collect();
                if sp != exp_split {
                    bad.push(("str::split".into(), format!("{:?}", exp_split), format!("{:?}", sp)));
                }
                // reverse forms
                let exp_rfind = expected.last().map(|m| m.0);
                if text.rfind(re) != exp_rfind {
                    bad.push(("str::rfind".into(), format!("{:?}", exp_rfind), format!("{:?}", text.rfind(re))));
                }
                let rmi: Vec<(usize, &str)> = text.rmatch_indices(re).collect();
                let exp_rmi: Vec<(usize, &str)> = exp_mi.iter().rev().copied().collect();
                if rmi != exp_rmi {
                    bad.push(("str::rmatch_indices".into(), format!("{:?}", exp_rmi), format!("{:?}", rmi)));
                }
                let rsp: Vec<&str> = text.rsplit(re).collect();
                let exp_rsplit: Vec<&str> = exp_split.iter().rev().copied().collect();
                if rsp != exp_rsplit {
                    bad.push(("str::rsplit".into(), format!("{:?}", exp_rsplit), format!("{:?}", rsp)));
                }
                let exp_ends = expected.last().map(|m| m.1 == text.len()).unwrap_or(false);
                if text.ends_with(re) != exp_ends {
                    bad.push(("str::ends_with".into(), format!("{}", exp_ends), format!("{}", text.ends_with(re))));
                }
                let exp_starts = expected.first().map(|m| m.0 == 0).unwrap_or(false);
                if text.starts_with(re) != exp_starts {
                    bad.push(("str::starts_with".into(), format!("{}", exp_starts), format!("{}", text.starts_with(re))));
                }
                bad
            });
            match r {
                Outcome::Ok(bad) => {
                    for (what, e, g) in bad {
                        st.violation(&known, "C20", &format!("{} differs from the find_iter model", what), p.len() + text.len(), case(&what, "str method", J::Null).set("expected", J::s(&e)).set("got", J::s(&g)));
                    }
                }
                Outcome::Panic(m) => st.violation(&known, "C20", "panic in a str method driven by the searcher", p.len() + text.len(), case("panic", "str method", J::s(&m))),
                Outcome::Fuel => {}
            }
            st
        })
        .reduce(Stats::default, Stats::merge);
    run.rule = format!(
        "{} regexes (literal, class, empty-matching, assertions, lookbehind, multibyte) x every haystack over {{a, 1, é, U+1F600}} up to length {} and every haystack of length 2-3 over {{U+2C65, U+023A, k, U+212A, U+20AC}} x {} call histories of next()/next_back() (forward only, backward only, every interleaving with at most two direction switches and block lengths 1..3), each direction run to Done plus two further calls; after every history: forward steps adjacent from 0, backward steps adjacent from len, char boundaries, coverage at Done, forward Match steps = find_iter, backward Match steps = find_iter reversed, each direction unaffected by the other; then str::find / contains / matches / match_indices / split / rfind / rmatch_indices / rsplit / starts_with / ends_with against a find_iter model; non-trivial = the regex matches",
        pats.len(),
        if thorough { 4 } else { 3 },
        hists.len()
    );
    run.assumptions = vec!["built with --features pattern on the nightly toolchain".into(), "std defines no joint tiling for a searcher that is not a DoubleEndedSearcher, so none is demanded between the two directions".into()];
    st
}
