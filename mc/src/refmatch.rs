//! Reference matcher: ES2025 22.2.2 (Pattern Semantics) transcribed in continuation-passing style,
//! on code-point input. No optimisation of any kind. Counts its own steps.
//!
//! Deliberate reading choices (all stated in DESIGN.md):
//!  * input elements are code points in every mode ("on code-point input");
//!  * Canonicalize is given by the oracle partition (fold.rs).
use crate::ast::*;
use crate::fold;
use crate::props;
use std::rc::Rc;

pub const MAXG: usize = 12;
pub const UNDEF: (i32, i32) = (-1, -1);

#[derive(Clone, Copy, PartialEq, Eq, Debug)]
pub struct St {
    pub end: i32,
    pub caps: [(i32, i32); MAXG],
}

/// Semantic character set (possibly with strings, v-mode only).
#[derive(Debug, Clone)]
pub enum CSet {
    Empty,
    Single(u32),
    Range(u32, u32),
    Digit,
    Word,
    /// WordCharacters(rer) with the extra characters of iu / iv mode
    WordIcaseUnicode,
    Space,
    Prop(Rc<Vec<(u32, u32)>>),
    Union(Vec<CSet>),
    Inter(Box<CSet>, Box<CSet>),
    Diff(Box<CSet>, Box<CSet>),
    /// complement over all code points
    Not(Box<CSet>),
    /// complement over AllCharacters of vi mode (the canonical representatives); inner is in rep space
    NotFolded(Box<CSet>),
    /// MaybeSimpleCaseFolding of a raw set: contains r iff r is a representative and some member of
    /// its class is in the inner set
    Folded(Box<CSet>),
    LineTerminatorComplement,
    All,
}

pub fn is_line_terminator(c: u32) -> bool {
    matches!(c, 0x0A | 0x0D | 0x2028 | 0x2029)
}

pub fn is_space(c: u32) -> bool {
    // WhiteSpace + LineTerminator
    matches!(c, 0x09 | 0x0B | 0x0C | 0x20 | 0xA0 | 0xFEFF | 0x1680 | 0x2000..=0x200A | 0x202F | 0x205F | 0x3000) || is_line_terminator(c)
}

pub fn is_basic_word(c: u32) -> bool {
    matches!(c, 0x30..=0x39 | 0x41..=0x5A | 0x5F | 0x61..=0x7A)
}

impl CSet {
    pub fn contains(&self, c: u32) -> bool {
        match self {
            CSet::Empty => false,
            CSet::Single(a) => *a == c,
            CSet::Range(a, b) => *a <= c && c <= *b,
            CSet::Digit => (0x30..=0x39).contains(&c),
            CSet::Word => is_basic_word(c),
            CSet::WordIcaseUnicode => is_basic_word(c) || fold::class_of(c, true).iter().any(|&d| is_basic_word(d)),
            CSet::Space => is_space(c),
            CSet::Prop(iv) => {
                // binary search
                let mut lo = 0usize;
                let mut hi = iv.len();
                while lo < hi {
                    let mid = (lo + hi) / 2;
                    if iv[mid].1 < c {
                        lo = mid + 1
                    } else {
                        hi = mid
                    }
                }
                lo < iv.len() && iv[lo].0 <= c
            }
            CSet::Union(v) => v.iter().any(|s| s.contains(c)),
            CSet::Inter(a, b) => a.contains(c) && b.contains(c),
            CSet::Diff(a, b) => a.contains(c) && !b.contains(c),
            CSet::Not(a) => c <= 0x10FFFF && !a.contains(c),
            CSet::NotFolded(a) => fold::rep(c, true) == c && !a.contains(c),
            CSet::Folded(a) => fold::rep(c, true) == c && fold::class_of(c, true).iter().any(|&d| a.contains(d)),
            CSet::LineTerminatorComplement => !is_line_terminator(c),
            CSet::All => true,
        }
    }
}

/// A compiled class: single-character set, an invert flag (legacy / u brackets only) and strings
/// (v mode only, each of length != 1; the empty string is allowed).
#[derive(Debug, Clone)]
pub struct ClassSem {
    pub set: CSet,
    pub invert: bool,
    pub strings: Vec<Vec<u32>>,
}

#[derive(Debug)]
pub enum R {
    Empty,
    Set { set: CSet, invert: bool, icase: bool },
    Seq(Vec<R>),
    Alt(Vec<R>),
    Rep { body: Box<R>, min: u32, max: Option<u32>, greedy: bool, pidx: usize, pcount: usize },
    Group { idx: usize, body: Box<R> },
    BackRef { groups: Vec<usize>, icase: bool },
    Look { behind: bool, neg: bool, body: Box<R> },
    Start { multiline: bool },
    End { multiline: bool },
    WordB { invert: bool, uicase: bool },
}

#[derive(Debug)]
pub enum CompileError {
    TooManyGroups,
    UnknownProperty(String),
    Invalid(&'static str),
}

pub struct Prog {
    pub root: R,
    pub ngroups: usize,
    pub unicode: bool,
    pub names: Vec<Option<String>>,
}

#[derive(Clone, Copy)]
struct LF {
    i: bool,
    m: bool,
    s: bool,
}

struct Comp<'a> {
    flags: Flags,
    next_group: usize,
    names: &'a [Option<String>],
}

fn esc_set(k: EscKind, uicase: bool) -> (CSet, bool) {
    // returns (positive set, negated?)
    match k {
        EscKind::Digit => (CSet::Digit, false),
        EscKind::NotDigit => (CSet::Digit, true),
        EscKind::Space => (CSet::Space, false),
        EscKind::NotSpace => (CSet::Space, true),
        EscKind::Word => (if uicase { CSet::WordIcaseUnicode } else { CSet::Word }, false),
        EscKind::NotWord => (if uicase { CSet::WordIcaseUnicode } else { CSet::Word }, true),
    }
}

impl<'a> Comp<'a> {
    fn um(&self) -> bool {
        self.flags.unicode_mode()
    }

    /// CompileToCharSet for a single escape in a position where the result is a plain CharSet
    /// (u mode or legacy): complement over all code points.
    fn esc_plain(&self, k: EscKind, lf: LF) -> CSet {
        let (s, neg) = esc_set(k, self.um() && lf.i);
        if neg {
            CSet::Not(Box::new(s))
        } else {
            s
        }
    }

    fn prop_plain(&self, neg: bool, name: &str) -> Result<CSet, CompileError> {
        match props::lookup(name, false) {
            Some(props::PropVal::Set(iv)) => {
                let s = CSet::Prop(iv);
                Ok(if neg { CSet::Not(Box::new(s)) } else { s })
            }
            _ => Err(CompileError::UnknownProperty(name.to_string())),
        }
    }

    /// v mode: MaybeSimpleCaseFolding(rer, A)
    fn msf(&self, lf: LF, a: CSet) -> CSet {
        if lf.i {
            CSet::Folded(Box::new(a))
        } else {
            a
        }
    }

    /// v mode: CharacterComplement(rer, S)
    fn vcomplement(&self, lf: LF, s: CSet) -> CSet {
        if lf.i {
            CSet::NotFolded(Box::new(s))
        } else {
            CSet::Not(Box::new(s))
        }
    }

    fn v_esc(&self, k: EscKind, lf: LF) -> CSet {
        let (s, neg) = esc_set(k, lf.i);
        let s = self.msf(lf, s);
        if neg {
            self.vcomplement(lf, s)
        } else {
            s
        }
    }

    fn v_prop(&self, neg: bool, name: &str, lf: LF) -> Result<(CSet, Vec<Vec<u32>>), CompileError> {
        match props::lookup(name, true) {
            Some(props::PropVal::Set(iv)) => {
                let s = self.msf(lf, CSet::Prop(iv));
                Ok((if neg { self.vcomplement(lf, s) } else { s }, vec![]))
            }
            Some(props::PropVal::Strings(strs)) => {
                if neg {
                    return Err(CompileError::Invalid("negated property of strings"));
                }
                let mut singles = Vec::new();
                let mut strings = Vec::new();
                for s in strs.iter() {
                    let f: Vec<u32> = if lf.i { s.iter().map(|&c| fold::rep(c, true)).collect() } else { s.clone() };
                    if f.len() == 1 {
                        singles.push(CSet::Single(f[0]));
                    } else {
                        strings.push(f);
                    }
                }
                Ok((CSet::Union(singles), strings))
            }
            None => Err(CompileError::UnknownProperty(name.to_string())),
        }
    }

    /// CompileToCharSet of a v-mode class: (single characters, strings). May contain strings only
    /// when not negated (early error otherwise).
    fn vclass(&self, vc: &VClass, lf: LF) -> Result<(CSet, Vec<Vec<u32>>), CompileError> {
        let mut parts: Vec<(CSet, Vec<Vec<u32>>)> = Vec::new();
        for o in &vc.operands {
            let p = match o {
                VOperand::Char(c) => (self.msf(lf, CSet::Single(*c)), vec![]),
                VOperand::Range(a, b) => {
                    if a > b {
                        return Err(CompileError::Invalid("class set range out of order"));
                    }
                    (self.msf(lf, CSet::Range(*a, *b)), vec![])
                }
                VOperand::Esc(k) => (self.v_esc(*k, lf), vec![]),
                VOperand::Prop(n, s) => self.v_prop(*n, s, lf)?,
                VOperand::QStrings(v) => {
                    let mut singles = Vec::new();
                    let mut strings = Vec::new();
                    for s in v {
                        let f: Vec<u32> = if lf.i { s.iter().map(|&c| fold::rep(c, true)).collect() } else { s.clone() };
                        if f.len() == 1 {
                            singles.push(CSet::Single(f[0]));
                        } else if !strings.contains(&f) {
                            strings.push(f);
                        }
                    }
                    (CSet::Union(singles), strings)
                }
                VOperand::Nested(n) => self.vclass(n, lf)?,
            };
            parts.push(p);
        }
        let (mut set, mut strings) = match vc.op {
            VOp::Union => {
                let mut sets = Vec::new();
                let mut strs: Vec<Vec<u32>> = Vec::new();
                for (s, st) in parts {
                    sets.push(s);
                    for x in st {
                        if !strs.contains(&x) {
                            strs.push(x);
                        }
                    }
                }
                (CSet::Union(sets), strs)
            }
            VOp::Inter => {
                let mut it = parts.into_iter();
                let (mut s, mut st) = it.next().ok_or(CompileError::Invalid("empty intersection"))?;
                for (s2, st2) in it {
                    s = CSet::Inter(Box::new(s), Box::new(s2));
                    st.retain(|x| st2.contains(x));
                }
                (s, st)
            }
            VOp::Sub => {
                let mut it = parts.into_iter();
                let (mut s, mut st) = it.next().ok_or(CompileError::Invalid("empty subtraction"))?;
                for (s2, st2) in it {
                    s = CSet::Diff(Box::new(s), Box::new(s2));
                    st.retain(|x| !st2.contains(x));
                }
                (s, st)
            }
        };
        if vc.negated {
            if !strings.is_empty() {
                return Err(CompileError::Invalid("negated class with strings"));
            }
            set = self.vcomplement(lf, set);
            strings = vec![];
        }
        Ok((set, strings))
    }

    fn go(&mut self, n: &Node, lf: LF) -> Result<R, CompileError> {
        let um = self.um();
        Ok(match n {
            Node::Empty => R::Empty,
            Node::Char(c) => R::Set { set: CSet::Single(*c), invert: false, icase: lf.i },
            Node::Lit(v) => R::Seq(v.iter().map(|&c| R::Set { set: CSet::Single(c), invert: false, icase: lf.i }).collect()),
            Node::Dot => R::Set {
                set: if lf.s { CSet::All } else { CSet::LineTerminatorComplement },
                invert: false,
                icase: false,
            },
            Node::Esc(k) => {
                if self.flags.v {
                    R::Set { set: self.v_esc(*k, lf), invert: false, icase: lf.i }
                } else {
                    R::Set { set: self.esc_plain(*k, lf), invert: false, icase: lf.i }
                }
            }
            Node::Prop(neg, name) => {
                if self.flags.v {
                    let (set, strings) = self.v_prop(*neg, name, lf)?;
                    self.class_matcher(set, strings, lf)
                } else {
                    R::Set { set: self.prop_plain(*neg, name)?, invert: false, icase: lf.i }
                }
            }
            Node::Class { negated, items } => {
                let mut sets = Vec::new();
                for it in items {
                    sets.push(match it {
                        ClassItem::Single(c) => CSet::Single(*c),
                        ClassItem::Range(a, b) => {
                            if a > b {
                                return Err(CompileError::Invalid("class range out of order"));
                            }
                            CSet::Range(*a, *b)
                        }
                        ClassItem::Esc(k) => self.esc_plain(*k, lf),
                        ClassItem::Prop(neg, name) => self.prop_plain(*neg, name)?,
                    });
                }
                R::Set { set: CSet::Union(sets), invert: *negated, icase: lf.i }
            }
            Node::VClass(vc) => {
                let (set, strings) = self.vclass(vc, lf)?;
                self.class_matcher(set, strings, lf)
            }
            Node::BackRef(k) => R::BackRef { groups: vec![(*k as usize) - 1], icase: lf.i },
            Node::NamedRef(name) => {
                let groups: Vec<usize> =
                    self.names.iter().enumerate().filter(|(_, n)| n.as_deref() == Some(name.as_str())).map(|(i, _)| i).collect();
                if groups.is_empty() {
                    return Err(CompileError::Invalid("dangling named reference"));
                }
                R::BackRef { groups, icase: lf.i }
            }
            Node::AssertStart => R::Start { multiline: lf.m },
            Node::AssertEnd => R::End { multiline: lf.m },
            Node::WordB => R::WordB { invert: false, uicase: um && lf.i },
            Node::NotWordB => R::WordB { invert: true, uicase: um && lf.i },
            Node::Group(b, _) => {
                let idx = self.next_group;
                self.next_group += 1;
                if idx >= MAXG {
                    return Err(CompileError::TooManyGroups);
                }
                let body = self.go(b, lf)?;
                R::Group { idx, body: Box::new(body) }
            }
            Node::NonCap(b) => self.go(b, lf)?,
            Node::Mods { on, off, body } => {
                let mut l = lf;
                if on.i {
                    l.i = true
                }
                if on.m {
                    l.m = true
                }
                if on.s {
                    l.s = true
                }
                if off.i {
                    l.i = false
                }
                if off.m {
                    l.m = false
                }
                if off.s {
                    l.s = false
                }
                self.go(body, l)?
            }
            Node::Look { behind, neg, body } => R::Look { behind: *behind, neg: *neg, body: Box::new(self.go(body, lf)?) },
            Node::Quant { body, min, max, greedy } => {
                let pidx = self.next_group;
                let b = self.go(body, lf)?;
                let pcount = self.next_group - pidx;
                R::Rep { body: Box::new(b), min: *min, max: *max, greedy: *greedy, pidx, pcount }
            }
            Node::Cat(v) => {
                let mut out = Vec::new();
                for c in v {
                    out.push(self.go(c, lf)?);
                }
                R::Seq(out)
            }
            Node::Alt(v) => {
                let mut out = Vec::new();
                for c in v {
                    out.push(self.go(c, lf)?);
                }
                R::Alt(out)
            }
        })
    }

    /// CompileAtom for a v-mode class with strings (22.2.2.3 Atom :: CharacterClass steps 3-12).
    fn class_matcher(&self, set: CSet, mut strings: Vec<Vec<u32>>, lf: LF) -> R {
        if strings.is_empty() {
            return R::Set { set, invert: false, icase: lf.i };
        }
        let has_empty = strings.iter().any(|s| s.is_empty());
        strings.retain(|s| !s.is_empty());
        // stable sort, descending length
        strings.sort_by(|a, b| b.len().cmp(&a.len()));
        let mut alts = Vec::new();
        for s in strings {
            alts.push(R::Seq(s.iter().map(|&c| R::Set { set: CSet::Single(c), invert: false, icase: lf.i }).collect()));
        }
        alts.push(R::Set { set, invert: false, icase: lf.i });
        if has_empty {
            alts.push(R::Empty);
        }
        R::Alt(alts)
    }
}

pub fn compile(ast: &Node, flags: Flags) -> Result<Prog, CompileError> {
    let mut names = Vec::new();
    ast.group_names(&mut names);
    if names.len() > MAXG {
        return Err(CompileError::TooManyGroups);
    }
    let mut c = Comp { flags, next_group: 0, names: &names };
    let lf = LF { i: flags.i, m: flags.m, s: flags.s };
    let root = c.go(ast, lf)?;
    Ok(Prog { root, ngroups: names.len(), unicode: flags.unicode_mode(), names })
}

pub struct Exec<'a> {
    pub input: &'a [u32],
    pub unicode: bool,
    pub steps: u64,
    pub step_limit: u64,
    pub cut: bool,
}

type Cont<'c> = &'c mut dyn FnMut(&mut Exec, St) -> Option<St>;

impl<'a> Exec<'a> {
    fn canon_eq(&self, a: u32, b: u32) -> bool {
        fold::same(a, b, self.unicode)
    }

    fn set_match(&self, set: &CSet, invert: bool, icase: bool, ch: u32) -> bool {
        // CharacterSetMatcher step: "there exists a member a of A such that Canonicalize(a) is cc"
        let found = if icase {
            if set.contains(ch) {
                true
            } else {
                let cls = fold::class_of(ch, self.unicode);
                cls.len() > 1 && cls.iter().any(|&d| set.contains(d))
            }
        } else {
            set.contains(ch)
        };
        found != invert
    }

    fn is_word_at(&self, e: i32, uicase: bool) -> bool {
        if e < 0 || e as usize >= self.input.len() {
            return false;
        }
        let c = self.input[e as usize];
        if uicase {
            CSet::WordIcaseUnicode.contains(c)
        } else {
            is_basic_word(c)
        }
    }

    pub fn m(&mut self, r: &R, fwd: bool, x: St, c: Cont) -> Option<St> {
        self.steps += 1;
        if self.steps > self.step_limit {
            self.cut = true;
            return None;
        }
        match r {
            R::Empty => c(self, x),
            R::Set { set, invert, icase } => {
                let len = self.input.len() as i32;
                let e = x.end;
                let f = if fwd { e + 1 } else { e - 1 };
                if f < 0 || f > len {
                    return None;
                }
                let index = e.min(f);
                let ch = self.input[index as usize];
                if !self.set_match(set, *invert, *icase, ch) {
                    return None;
                }
                let mut y = x;
                y.end = f;
                c(self, y)
            }
            R::Seq(v) => self.seq(v, fwd, x, c),
            R::Alt(v) => {
                for a in v {
                    let r = self.m(a, fwd, x, c);
                    if r.is_some() {
                        return r;
                    }
                    if self.cut {
                        return None;
                    }
                }
                None
            }
            R::Rep { body, min, max, greedy, pidx, pcount } => self.rep(body, *min, *max, *greedy, *pidx, *pcount, fwd, x, c),
            R::Group { idx, body } => {
                let idx = *idx;
                let xe = x.end;
                self.m(body, fwd, x, &mut |ex: &mut Exec, y: St| {
                    let mut z = y;
                    z.caps[idx] = if fwd { (xe, y.end) } else { (y.end, xe) };
                    c(ex, z)
                })
            }
            R::BackRef { groups, icase } => {
                let mut rr = UNDEF;
                for &g in groups {
                    if x.caps[g] != UNDEF {
                        rr = x.caps[g];
                    }
                }
                if rr == UNDEF {
                    return c(self, x);
                }
                let e = x.end;
                let rs = rr.0;
                let re = rr.1;
                let len = re - rs;
                let f = if fwd { e + len } else { e - len };
                if f < 0 || f > self.input.len() as i32 {
                    return None;
                }
                let g = e.min(f);
                for i in 0..len {
                    let a = self.input[(rs + i) as usize];
                    let b = self.input[(g + i) as usize];
                    let eq = if *icase { self.canon_eq(a, b) } else { a == b };
                    if !eq {
                        return None;
                    }
                }
                let mut y = x;
                y.end = f;
                c(self, y)
            }
            R::Look { behind, neg, body } => {
                let r = self.m(body, !*behind, x, &mut |_ex: &mut Exec, y: St| Some(y));
                if self.cut {
                    return None;
                }
                if *neg {
                    if r.is_some() {
                        None
                    } else {
                        c(self, x)
                    }
                } else {
                    match r {
                        None => None,
                        Some(y) => {
                            let mut z = y;
                            z.end = x.end;
                            c(self, z)
                        }
                    }
                }
            }
            R::Start { multiline } => {
                let e = x.end;
                if e == 0 || (*multiline && is_line_terminator(self.input[(e - 1) as usize])) {
                    c(self, x)
                } else {
                    None
                }
            }
            R::End { multiline } => {
                let e = x.end;
                if e as usize == self.input.len() || (*multiline && is_line_terminator(self.input[e as usize])) {
                    c(self, x)
                } else {
                    None
                }
            }
            R::WordB { invert, uicase } => {
                let e = x.end;
                let a = self.is_word_at(e - 1, *uicase);
                let b = self.is_word_at(e, *uicase);
                if (a != b) != *invert {
                    c(self, x)
                } else {
                    None
                }
            }
        }
    }

    fn seq(&mut self, v: &[R], fwd: bool, x: St, c: Cont) -> Option<St> {
        if v.is_empty() {
            return c(self, x);
        }
        if fwd {
            let (first, rest) = v.split_first().unwrap();
            self.m(first, fwd, x, &mut |ex: &mut Exec, y: St| ex.seq(rest, fwd, y, c))
        } else {
            let (last, rest) = v.split_last().unwrap();
            self.m(last, fwd, x, &mut |ex: &mut Exec, y: St| ex.seq(rest, fwd, y, c))
        }
    }

    /// RepeatMatcher (22.2.2.3.1)
    #[allow(clippy::too_many_arguments)]
    fn rep(&mut self, body: &R, min: u32, max: Option<u32>, greedy: bool, pidx: usize, pcount: usize, fwd: bool, x: St, c: Cont) -> Option<St> {
        self.steps += 1;
        if self.steps > self.step_limit {
            self.cut = true;
            return None;
        }
        if max == Some(0) {
            return c(self, x);
        }
        let xend = x.end;
        let min2 = if min == 0 { 0 } else { min - 1 };
        let max2 = max.map(|m| m - 1);
        let mut xr = x;
        for k in pidx..pidx + pcount {
            xr.caps[k] = UNDEF;
        }
        if min != 0 {
            return self.m(body, fwd, xr, &mut |ex: &mut Exec, y: St| {
                // min != 0 here, so the empty check of step 2.b does not apply
                ex.rep(body, min2, max2, greedy, pidx, pcount, fwd, y, c)
            });
        }
        if !greedy {
            let z = c(self, x);
            if z.is_some() || self.cut {
                return z;
            }
            return self.m(body, fwd, xr, &mut |ex: &mut Exec, y: St| {
                if y.end == xend {
                    return None;
                }
                ex.rep(body, min2, max2, greedy, pidx, pcount, fwd, y, c)
            });
        }
        let z = self.m(body, fwd, xr, &mut |ex: &mut Exec, y: St| {
            if y.end == xend {
                return None;
            }
            ex.rep(body, min2, max2, greedy, pidx, pcount, fwd, y, c)
        });
        if z.is_some() || self.cut {
            return z;
        }
        c(self, x)
    }
}

#[derive(Clone, Debug, PartialEq, Eq)]
pub struct RefMatch {
    pub start: usize,
    pub end: usize,
    pub caps: Vec<Option<(usize, usize)>>,
}

#[derive(Clone, Debug, PartialEq, Eq)]
pub enum RefResult {
    NoMatch,
    Match(RefMatch),
    /// the reference itself ran out of its step budget: not decided
    Cut,
}

impl Prog {
    /// Anchored attempt at code-point index `at`. Returns (result, steps used).
    pub fn match_at(&self, input: &[u32], at: usize, step_limit: u64) -> (RefResult, u64) {
        let mut ex = Exec { input, unicode: self.unicode, steps: 0, step_limit, cut: false };
        let x = St { end: at as i32, caps: [UNDEF; MAXG] };
        let r = ex.m(&self.root, true, x, &mut |_ex: &mut Exec, y: St| Some(y));
        if ex.cut {
            return (RefResult::Cut, ex.steps);
        }
        match r {
            None => (RefResult::NoMatch, ex.steps),
            Some(y) => {
                let caps = (0..self.ngroups)
                    .map(|i| if y.caps[i] == UNDEF { None } else { Some((y.caps[i].0 as usize, y.caps[i].1 as usize)) })
                    .collect();
                (RefResult::Match(RefMatch { start: at, end: y.end as usize, caps }), ex.steps)
            }
        }
    }

    /// First match at or after `start` (RegExpBuiltinExec's loop over lastIndex, code-point steps).
    pub fn find_from(&self, input: &[u32], start: usize, step_limit: u64) -> (RefResult, u64) {
        let mut total = 0;
        let mut at = start;
        while at <= input.len() {
            let (r, s) = self.match_at(input, at, step_limit);
            total += s;
            match r {
                RefResult::NoMatch => at += 1,
                other => return (other, total),
            }
        }
        (RefResult::NoMatch, total)
    }
}
