//! C14: UTF-16 and UCS-2 entry points agree with UTF-8 on well-formed text; on arbitrary u16 input
//! they terminate without panicking and report ranges within the slice. (Built with feature utf16.)
#![cfg(feature = "utf16")]
use crate::ast::*;
use crate::enumerate::{self, Hay};
use crate::json::J;
use crate::print;
use crate::profiles;
use crate::report::{Known, Run, Stats};
use crate::subject::{self, CompileOutcome, Outcome, SMatch};
use crate::sweep;
use rayon::prelude::*;

fn enc16(h: &Hay) -> (Vec<u16>, Vec<usize>) {
    // units and, per code point index, its unit offset (len+1 entries)
    let mut units = Vec::new();
    let mut offs = Vec::new();
    for &c in &h.cps {
        offs.push(units.len());
        let ch = char::from_u32(c).unwrap();
        let mut buf = [0u16; 2];
        units.extend_from_slice(ch.encode_utf16(&mut buf));
    }
    offs.push(units.len());
    (units, offs)
}

fn collect16<I: Iterator<Item = regress::Match>>(it: I, limit: usize) -> Vec<SMatch> {
    it.take(limit).map(|m| SMatch::from(&m)).collect()
}

fn map_back(seq: &[SMatch], uoffs: &[usize], boffs: &[usize]) -> Option<Vec<SMatch>> {
    let f = |u: usize| -> Option<usize> { uoffs.binary_search(&u).ok().map(|i| boffs[i]) };
    let mut out = Vec::new();
    for m in seq {
        let mut caps = Vec::new();
        for c in &m.caps {
            caps.push(match c {
                Some((a, b)) => Some((f(*a)?, f(*b)?)),
                None => None,
            });
        }
        out.push(SMatch { start: f(m.start)?, end: f(m.end)?, caps });
    }
    Some(out)
}

fn eval(ast: &Node, flags: Flags, hays: &[(Hay, Vec<u16>, Vec<usize>)], known: &Known, st: &mut Stats) {
    st.add("patterns_generated", 1);
    if ast.validate(flags).is_err() {
        return;
    }
    let pat = print::print(ast);
    crate::subject::set_case_desc(format!("/{}/{} (C14)", print::show(&pat), flags.to_string()));
    let CompileOutcome::Ok(re) = subject::compile(&pat, flags, false) else { return };
    st.add("patterns_evaluated", 1);
    for (hay, units, uoffs) in hays {
        let bmp = hay.cps.iter().all(|&c| c < 0x10000);
        for s in 0..=hay.cps.len() {
            st.add("evaluations", 1);
            let b8 = hay.offs[s];
            let u16s = uoffs[s];
            let r8 = subject::api_find_n(&re, &hay.text, b8, 64, 2_000_000);
            let Outcome::Ok(exp) = r8 else {
                st.add("undecided_fuel", 1);
                continue;
            };
            if !exp.is_empty() {
                st.add("nontrivial", 1);
            }
            let mut entries: Vec<(&str, Outcome<Vec<SMatch>>)> = vec![("find_from_utf16", subject::guarded(2_000_000, || collect16(re.find_from_utf16(units, u16s), 64)))];
            if bmp {
                entries.push(("find_from_ucs2", subject::guarded(2_000_000, || collect16(re.find_from_ucs2(units, u16s), 64))));
            }
            for (name, got) in entries {
                st.add("validated", 1);
                st.add("transitions", subject::steps());
                match got {
                    Outcome::Ok(g) => {
                        let mapped = map_back(&g, uoffs, &hay.offs);
                        if mapped.as_ref() != Some(&exp) {
                            let cl = format!("{} differs from the UTF-8 search /{}/{}", name, sweep::shape(&pat), flags.to_string());
                            st.violation(known, "C14", &cl, pat.len() * 8 + hay.cps.len(), sweep::case_json(&pat, flags, hay, b8, &format!("{} (offsets in code units, mapped back where possible) differs from find_from on the same text", name), sweep::seq_json(&exp), sweep::seq_json(&g)).set("entry", J::s(name)));
                        } else if !exp.is_empty() && !hay.is_ascii() {
                            st.sample(|| sweep::case_json(&pat, flags, hay, b8, &format!("{} agrees", name), J::Null, sweep::seq_json(&g)));
                        }
                    }
                    Outcome::Fuel => st.add("undecided_fuel", 1),
                    Outcome::Panic(m) => {
                        let cl = format!("panic in {} /{}/{}", name, sweep::shape(&pat), flags.to_string());
                        st.violation(known, "C14", &cl, pat.len() * 8 + hay.cps.len(), sweep::case_json(&pat, flags, hay, b8, "panic", J::Null, J::s(&m)).set("entry", J::s(name)));
                    }
                }
            }
        }
    }
}

/// Arbitrary u16 slices (lone and swapped surrogates): terminate, no panic, ranges within the slice.
fn raw_slices(run: &Run, patterns: &[(Vec<u32>, Flags)], max_len: usize) -> Stats {
    let alphabet: [u16; 5] = [0x61, 0xD83D, 0xDE00, 0xDC00, 0x20AC];
    let mut slices: Vec<Vec<u16>> = vec![vec![]];
    let mut prev: Vec<Vec<u16>> = vec![vec![]];
    for _ in 0..max_len {
        let mut next = Vec::new();
        for p in &prev {
            for &a in &alphabet {
                let mut q = p.clone();
                q.push(a);
                next.push(q);
            }
        }
        slices.extend(next.iter().cloned());
        prev = next;
    }
    let known = &run.known;
    patterns
        .par_iter()
        .fold(Stats::default, |mut st, (pat, fl)| {
            let CompileOutcome::Ok(re) = subject::compile(pat, *fl, false) else { return st };
            for sl in &slices {
                for start in 0..=sl.len() + 1 {
                    for (name, ucs2) in [("find_from_utf16", false), ("find_from_ucs2", true)] {
                        st.add("evaluations", 1);
                        st.add("validated", 1);
                        let got = subject::guarded(2_000_000, || if ucs2 { collect16(re.find_from_ucs2(sl, start), 64) } else { collect16(re.find_from_utf16(sl, start), 64) });
                        st.add("transitions", subject::steps());
                        let case = |what: &str, got: J| {
                            J::obj()
                                .set("kind", J::s("u16"))
                                .set("pattern", J::s(&print::show(pat)))
                                .set("pattern_cps", J::cps(pat))
                                .set("flags", J::s(&fl.to_string()))
                                .set("units", J::Arr(sl.iter().map(|&u| J::s(&format!("{:04X}", u))).collect()))
                                .set("start", J::u(start as u64))
                                .set("entry", J::s(name))
                                .set("what", J::s(what))
                                .set("got", got)
                        };
                        match got {
                            Outcome::Ok(g) => {
                                if !g.is_empty() {
                                    st.add("nontrivial", 1);
                                }
                                let mut bad = None;
                                let mut last_start: Option<usize> = None;
                                for m in &g {
                                    let mut rs = vec![(m.start, m.end)];
                                    rs.extend(m.caps.iter().flatten().copied());
                                    for (a, b) in rs {
                                        if !(a <= b && b <= sl.len()) {
                                            bad = Some(format!("range {}..{} outside the slice of {} units", a, b, sl.len()));
                                        }
                                    }
                                    if let Some(p) = last_start {
                                        if m.start <= p {
                                            bad = Some("match starts do not increase".to_string());
                                        }
                                    }
                                    last_start = Some(m.start);
                                }
                                if start > sl.len() && !g.is_empty() {
                                    bad = Some("start beyond the end yields a match".into());
                                }
                                if let Some(b) = bad {
                                    st.violation(known, "C14", &format!("{} on arbitrary u16 input: {}", name, b.split(' ').take(3).collect::<Vec<_>>().join(" ")), pat.len() * 8 + sl.len(), case(&b, sweep::seq_json(&g)));
                                } else if !g.is_empty() && sl.iter().any(|&u| (0xD800..0xE000).contains(&u)) {
                                    st.sample(|| case("terminates, ranges within the slice", sweep::seq_json(&g)));
                                }
                            }
                            Outcome::Fuel => {
                                st.violation(known, "C14", &format!("{} does not terminate within the step horizon on arbitrary u16 input", name), pat.len() * 8 + sl.len(), case("fuel exhausted", J::Null));
                            }
                            Outcome::Panic(m) => {
                                let where_ = m.rsplit(" at ").next().unwrap_or("").to_string();
                                st.violation(known, "C14", &format!("panic in {} on arbitrary u16 input at {}", name, where_), pat.len() * 8 + sl.len(), case("panic", J::s(&m)));
                            }
                        }
                    }
                }
            }
            st
        })
        .reduce(Stats::default, Stats::merge)
}

pub fn c14(run: &mut Run) -> Stats {
    let thorough = run.thorough();
    let mut total = Stats::default();
    let mut raw_patterns: Vec<(Vec<u32>, Flags)> = Vec::new();
    for (name, sq, sth) in [("utf8", 3usize, 4usize), ("dotcap", 6, 7), ("icase", 4, 4), ("look", 3, 4), ("onechar", 2, 3), ("lit", 2, 2), ("vset", 2, 3), ("icaseback", 5, 6)] {
        let sp = profiles::by_name(name).unwrap();
        let size = if thorough { sth } else { sq };
        // U+10061: a supplementary character whose low 16 bits are an ASCII letter (truncation to a code unit)
        let mut alphabet: Vec<u32> = vec!['a' as u32, 'é' as u32, '€' as u32, 0x1F600, '\n' as u32, 0x10061];
        for &c in &sp.alphabet {
            if !alphabet.contains(&c) && alphabet.len() < 8 {
                alphabet.push(c);
            }
        }
        let hays: Vec<(Hay, Vec<u16>, Vec<usize>)> = if name == "lit" {
            sweep::lit_hays()
        } else if name == "icase" || name == "icaseback" {
            // the fold partners themselves (all BMP, so the UCS-2 entry point is compared too)
            enumerate::all_hays(&sp.alphabet, if thorough { 3 } else { 2 })
        } else {
            enumerate::all_hays(&alphabet, if thorough { 4 } else { 3 })
        }
            .into_iter()
            .map(|h| {
                let (u, o) = enc16(&h);
                (h, u, o)
            })
            .collect();
        let by = enumerate::enumerate(&sp.profile, size);
        let known = &run.known;
        for list in &by {
            let s = list
                .par_iter()
                .fold(Stats::default, |mut st, ast| {
                    for &f in &sp.flags {
                        eval(ast, f, &hays, known, &mut st);
                    }
                    st
                })
                .reduce(Stats::default, Stats::merge);
            total = total.merge(s);
            // a stratified sample of the same patterns drives the raw-slice part
            for ast in list.iter().step_by(if thorough { 3 } else { 11 }) {
                for &f in &sp.flags {
                    if ast.validate(f).is_ok() {
                        raw_patterns.push((print::print(ast), f));
                    }
                }
            }
        }
    }
    // the size-parameterised and alignment families of the sweeps (haystacks up to 140 characters)
    {
        let mut fam = sweep::scale_family(false);
        fam.extend(sweep::alignment_family());
        let known = &run.known;
        let s = fam
            .par_iter()
            .fold(Stats::default, |mut st, (p, f, hs)| {
                let pat: Vec<u32> = p.chars().map(|c| c as u32).collect();
                let fl = Flags::parse(f);
                if let Ok(ast) = crate::refparse::parse(&pat, fl) {
                    let hays: Vec<(Hay, Vec<u16>, Vec<usize>)> = hs
                        .iter()
                        .filter(|h| h.chars().count() <= 140)
                        .map(|h| {
                            let hay = Hay::new(h.chars().map(|c| c as u32).collect());
                            let (u, o) = enc16(&hay);
                            (hay, u, o)
                        })
                        .collect();
                    eval(&ast, fl, &hays, known, &mut st);
                }
                st
            })
            .reduce(Stats::default, Stats::merge);
        total = total.merge(s);
    }
    // hand-picked patterns whose programs touch surrogates directly
    for (p, f) in [("\\ud83d", ""), ("\\ude00", ""), ("\\ud83d\\ude00", ""), ("\\u{1F600}", "u"), ("[\\ud83d-\\ude00]", ""), ("[^\\ud83d]", ""), (".", "u"), (".", ""), ("(?<=.)", "u"), ("(?<=\\ude00)", ""), ("\\W", "u"), ("\\b", ""), ("[\\u{10000}-\\u{10FFFF}]", "u"), ("(.)\\1", "iu"), ("(?<!\\ud83d)\\ude00", "")] {
        raw_patterns.push((p.chars().map(|c| c as u32).collect(), Flags::parse(f)));
    }
    let n_raw = raw_patterns.len();
    total = total.merge(raw_slices(run, &raw_patterns, if thorough { 5 } else { 4 }));
    run.rule = format!(
        "agreement: every AST of the profiles utf8, dotcap, icase, look, 1char, lit, vset, icaseback (fold partners of different lengths and planes under case-insensitive backreferences) up to the size bound x flags x every string over {{a, é, €, U+1F600, LF, U+10061 (+ profile letters)}} up to length 3 (4 thorough) x every start on a char boundary: find_from_utf16 on the UTF-16 encoding (offsets mapped back) == find_from, and find_from_ucs2 likewise on BMP-only text; robustness: {} patterns x every u16 slice over {{0061, D83D, DE00, DC00, 20AC}} up to length {} (lone and swapped surrogates) x every start 0..=len+1 x both entry points: terminates (fuel), no panic, ranges within the slice, starts increase; built with debug assertions; non-trivial = a match exists",
        n_raw,
        if thorough { 5 } else { 4 }
    );
    run.assumptions = vec!["oracle: the UTF-8 entry point of the same build (itself checked against the reference by C01)".into(), format!("build variant: {}", crate::c06::variant_name())];
    total
}
