//! C08: the accepted language is the ECMAScript grammar for the given flags.
use crate::ast::*;
use crate::c07::TOKENS;
use crate::enumerate;
use crate::json::J;
use crate::print;
use crate::profiles;
use crate::refparse;
use crate::report::{Run, Stats};
use crate::subject::{self, CompileOutcome};
use rayon::prelude::*;
use std::collections::HashSet;

pub fn token_string(alphabet: &[u32], idx: u64) -> Vec<u32> {
    let k = alphabet.len() as u64;
    let mut rem = idx;
    let mut len = 0usize;
    loop {
        let c = k.pow(len as u32);
        if rem < c {
            break;
        }
        rem -= c;
        len += 1;
    }
    let mut pat: Vec<u32> = vec![0; len];
    for i in (0..len).rev() {
        pat[i] = alphabet[(rem % k) as usize];
        rem /= k;
    }
    pat
}

pub fn total_strings(k: u64, max_len: usize) -> u64 {
    (0..=max_len).map(|l| k.pow(l as u32)).sum()
}

/// Signature for clustering: token classes.
#[allow(dead_code)]
fn tsig(pat: &[u32]) -> String {
    let s: String = pat
        .iter()
        .map(|&c| match char::from_u32(c) {
            Some(ch) if ch.is_ascii_digit() => '0',
            Some(ch) if ch.is_alphabetic() => ch,
            Some(ch) => ch,
            None => '?',
        })
        .collect();
    s.chars().take(24).collect()
}

fn judge(pat: &[u32], fl: Flags, st: &mut Stats, run: &Run, origin: &str) {
    st.add("evaluations", 1);
    st.add("validated", 1);
    let mut exp = refparse::parse(pat, fl);
    let got = subject::compile(pat, fl, false);
    // Attribution to a recorded known finding: the case disagrees with the reference, and agrees
    // with the reference run with exactly one bug-compatibility switch on.
    let mut compat_tag: Option<&str> = None;
    if exp.is_ok() != matches!(got, CompileOutcome::Ok(_)) && !fl.unicode_mode() {
        let alt = refparse::parse_compat(pat, fl, refparse::Compat { legacy_u_brace: true });
        if alt.is_ok() == matches!(got, CompileOutcome::Ok(_)) {
            compat_tag = Some("legacy-u-brace");
            if run.known.entries.iter().any(|e| e.get("match").and_then(|m| m.get("compat")).and_then(|c| c.str()) == Some("legacy-u-brace")) {
                st.add("attributed_to_known_finding_legacy_u_brace", 1);
                let case = J::obj().set("kind", J::s("accept")).set("pattern", J::s(&print::show(pat))).set("flags", J::s(&fl.to_string())).set("compat", J::s("legacy-u-brace"));
                st.violation(&run.known, "C08", "known", pat.len(), case);
                return;
            }
            exp = refparse::parse(pat, fl);
        }
    }
    let _ = compat_tag;
    if exp.is_ok() {
        st.add("nontrivial", 1);
    }
    match (&exp, &got) {
        (Ok(_), CompileOutcome::Ok(_)) => {
            if pat.len() >= 3 {
                st.sample(|| J::obj().set("pattern", J::s(&print::show(pat))).set("flags", J::s(&fl.to_string())).set("both", J::s("accept")));
            }
        }
        (Err(_), CompileOutcome::Err(_)) => {
            st.add("both_reject", 1);
        }
        (Ok(_), CompileOutcome::Err(e)) => {
            let case = J::obj().set("kind", J::s("accept")).set("pattern", J::s(&print::show(pat))).set("pattern_cps", J::cps(pat)).set("flags", J::s(&fl.to_string())).set("what", J::s("valid ECMAScript pattern rejected")).set("expected", J::s("Ok")).set("got", J::s(e)).set("origin", J::s(origin));
            st.violation(&run.known, "C08", &format!("rejects valid pattern: subject says '{}' (mode {})", e.chars().take(50).collect::<String>(), if fl.to_string().is_empty() { "legacy".to_string() } else { fl.to_string() }), pat.len(), case);
        }
        (Err(e), CompileOutcome::Ok(_)) => {
            let case = J::obj().set("kind", J::s("accept")).set("pattern", J::s(&print::show(pat))).set("pattern_cps", J::cps(pat)).set("flags", J::s(&fl.to_string())).set("what", J::s("invalid ECMAScript pattern accepted")).set("expected", J::s(&format!("SyntaxError ({})", e))).set("got", J::s("Ok")).set("origin", J::s(origin));
            st.violation(&run.known, "C08", &format!("accepts invalid pattern: grammar says '{}' (mode {})", e, if fl.to_string().is_empty() { "legacy".to_string() } else { fl.to_string() }), pat.len(), case);
        }
        (_, CompileOutcome::Panic(_)) => st.add("compile_panics_see_C07", 1),
    }
}


/// Seed patterns for the edit-distance part (also used by C07 for truncations): printed profile
/// patterns plus hand-written structured syntax that needs more than five tokens.
pub fn seed_patterns(thorough: bool) -> Vec<Vec<u32>> {
    let mut seeds: Vec<Vec<u32>> = Vec::new();
    for (pname, size) in [("named", 4usize), ("mods", 3), ("look", 3), ("core", 3), ("onechar", 2), ("icase", 2)] {
        let sp = profiles::by_name(pname).unwrap();
        let by = enumerate::enumerate(&sp.profile, if thorough { size + 1 } else { size });
        for list in by {
            for ast in list {
                seeds.push(print::print(&ast));
            }
        }
    }
    // hand-written seeds for structured syntax that needs more than 5 tokens
    for s in [
        "(?<a>x)\\k<a>", "(?<a>x)|(?<a>y)", "(?:(?<a>x)|(?<a>y))\\k<a>", "(?<a>x)(?<a>y)", "(?<a>(?<a>x))", "(?:(?<a>x)|b)(?:c|(?<a>y))", "(?<a>x)|(?:(?<a>y)|z)", "((?<a>x)|(?<a>y))(?<a>z)", "\\k<a>", "\\k<a>(?<a>x)", "(?<a>x)\\k<b>",
        "(?i:a)", "(?-i:a)", "(?i-m:a)", "(?ii:a)", "(?i-i:a)", "(?-:a)", "(?:a)", "(?ims-:a)", "(?i-ms:a)(?s:.)", "[\\q{ab|c}]", "[^\\q{ab}]", "[^\\q{a}]", "[a&&b]", "[a--b]", "[a&&b--c]", "[[a-z]&&[^aeiou]]", "[a&&&b]", "[a-z&&b]", "[\\p{L}--\\p{Lu}]",
        "[^\\p{RGI_Emoji}]", "\\P{RGI_Emoji}", "\\p{RGI_Emoji}", "[\\p{RGI_Emoji}--\\q{a}]", "[a-]", "[-a]", "[a-\\d]", "[\\d-a]", "[\\d-\\w]", "[z-a]", "[\\b]", "[\\-]", "[\\c1]", "[\\c]", "\\c1", "\\ca", "\\c", "[\\k]", "\\k", "\\u{61}", "\\u{110000}",
        "\\u0061", "\\ud83d\\ude00", "\\x61", "\\x6", "\\00", "\\08", "\\011", "\\1(a)", "\\2(a)", "\\10", "(a)(a)(a)(a)(a)(a)(a)(a)(a)(a)\\10", "\\8", "\\9", "a{1,2}", "a{2,1}", "a{1", "a{1,", "a{,1}", "a{}", "{1}", "a{1}{2}", "a**", "a*?", "a??", "a+*",
        "(?=a)*", "(?!a)+", "(?<=a)*", "(?<!a)?", "\\b*", "\\B+", "^*", "$?", "(?<=a)", "(?<a", "(?<1a>x)", "(?<a-b>x)", "(?<$_>x)", "(?<\\u0061>x)\\k<a>", "(?<\\u{61}>x)", "(?<a\\u{1F600}>x)", "]", "}", "{", ")", "(", "[", "[]", "[^]", "a|", "|", "||a", "()", "(|)",
        "\\p{Lu}", "\\p{gc=Lu}", "\\p{Script=Latin}", "\\p{scx=Latn}", "\\p{Foo}", "\\p{Lu", "\\p", "\\pL", "\\P{Any}", "\\p{ASCII}", "[\\p{Lu}-z]", "[!!]", "[a!!b]", "[?*]", "[+^]", "[&a]", "[a&]", "[&&]", "[(]", "[a|b]", "[\\|]", "[\\&]", "[\\!]", "[\\a]",
    ] {
        seeds.push(s.chars().map(|c| c as u32).collect());
    }
    seeds
}

const MODES: [&str; 3] = ["", "u", "v"];

pub fn c08(run: &mut Run) -> Stats {
    let thorough = run.thorough();
    let toks: Vec<u32> = TOKENS.chars().map(|c| c as u32).collect();
    let n = if thorough { 5 } else { 4 };
    let total = total_strings(toks.len() as u64, n);
    let chunk = 8192u64;
    let nchunks = (total + chunk - 1) / chunk;
    let runref: &Run = run;
    // (a) all token strings
    let mut st = (0..nchunks)
        .into_par_iter()
        .fold(Stats::default, |mut st, ci| {
            for idx in ci * chunk..((ci + 1) * chunk).min(total) {
                let pat = token_string(&toks, idx);
                for m in MODES {
                    judge(&pat, Flags::parse(m), &mut st, runref, "token string");
                }
            }
            st
        })
        .reduce(Stats::default, Stats::merge);
    // (b) printed profile patterns and all their single-token edits
    let edit_toks: Vec<u32> = "()[]{}?*+|^$\\.-,:=!<>&ak1n0".chars().map(|c| c as u32).collect();
    let mut seeds: Vec<(Vec<u32>, Flags)> = Vec::new();
    for p in seed_patterns(thorough) {
        for m in MODES {
            seeds.push((p.clone(), Flags::parse(m)));
        }
    }
    let mut seen: HashSet<(Vec<u32>, Flags)> = HashSet::new();
    seeds.retain(|s| seen.insert(s.clone()));
    let nseeds = seeds.len();
    let st_b = seeds
        .par_iter()
        .fold(Stats::default, |mut st, (p, fl)| {
            judge(p, *fl, &mut st, runref, "seed");
            // all single-token edits: delete, replace, insert at every position
            for i in 0..=p.len() {
                if i < p.len() {
                    let mut d = p.clone();
                    d.remove(i);
                    judge(&d, *fl, &mut st, runref, "edit of a printed pattern (delete)");
                    for &t in &edit_toks {
                        if t != p[i] {
                            let mut r = p.clone();
                            r[i] = t;
                            judge(&r, *fl, &mut st, runref, "edit of a printed pattern (replace)");
                        }
                    }
                }
                for &t in &edit_toks {
                    let mut ins = p.clone();
                    ins.insert(i, t);
                    judge(&ins, *fl, &mut st, runref, "edit of a printed pattern (insert)");
                }
            }
            st
        })
        .reduce(Stats::default, Stats::merge);
    st = st.merge(st_b);
    // (c) a focused alphabet at greater depth: brackets, groups and numeric backreferences (the pre-scan
    // that counts groups must skip classes exactly as the parser reads them)
    let focus: Vec<u32> = "[]()a\\1".chars().map(|c| c as u32).collect();
    let fn_len = if thorough { 9 } else { 8 };
    let ftotal = total_strings(focus.len() as u64, fn_len);
    let fchunks = (ftotal + chunk - 1) / chunk;
    let st_c = (0..fchunks)
        .into_par_iter()
        .fold(Stats::default, |mut st, ci| {
            for idx in ci * chunk..((ci + 1) * chunk).min(ftotal) {
                let pat = token_string(&focus, idx);
                if pat.len() <= n {
                    continue; // already covered by (a)
                }
                for m in MODES {
                    judge(&pat, Flags::parse(m), &mut st, runref, "focused token string ([ ] ( ) a \\ 1)");
                }
            }
            st
        })
        .reduce(Stats::default, Stats::merge);
    st = st.merge(st_c);
    // (d) size-parameterised shapes below the documented resource limits: same verdict as the grammar
    let mut shape_jobs: Vec<(String, usize)> = Vec::new();
    for name in ["alt", "alt_in_group", "alt_groups", "stars", "groups", "named_groups", "backrefs", "literal", "literal_lookbehind", "class_members", "class_ranges", "class_qstrings", "class_subtract", "escapes", "lazy_opt_groups", "lookbehind_groups", "sibling_nested_classes", "nested_class_list", "sibling_groups_in_group", "count_exact", "count_range", "prop_any"] {
        for sz in [1usize, 2, 10, 100, 200, 255, 256, 257, 300, 1000] {
            shape_jobs.push((name.to_string(), sz));
        }
    }
    // shapes whose verdict depends on counters that wrap at 2^16 or leak towards the nesting limit
    for name in ["sibling_nested_negclasses", "nested_negclass_list", "dup_named_same_path_far", "dup_named_alternatives_far", "dup_named_conflict_far"] {
        for sz in [1usize, 2, 100, 254, 255, 256, 257, 1000, 65_533, 65_534, 65_535, 65_536, 65_537] {
            shape_jobs.push((name.to_string(), sz));
        }
    }
    for name in ["nest_capture", "nest_noncap", "nest_lookahead", "nest_lookbehind", "nest_modifier", "nest_class", "nest_quant"] {
        for sz in [1usize, 2, 10, 100, 200] {
            shape_jobs.push((name.to_string(), sz));
        }
    }
    let st_d = shape_jobs
        .par_iter()
        .fold(Stats::default, |mut st, (name, sz)| {
            if let Some(p) = crate::c07::shape(name, *sz) {
                let pat: Vec<u32> = p.chars().map(|c| c as u32).collect();
                for m in MODES {
                    judge(&pat, Flags::parse(m), &mut st, runref, &format!("shape {} n={}", name, sz));
                }
            }
            st
        })
        .reduce(Stats::default, Stats::merge);
    st = st.merge(st_d);
    // (e) property-escape expressions: every sequence of words between \p{ and }, bare and inside a class
    let words: Vec<&str> = vec!["sc", "scx", "gc", "Script", "General_Category", "=", "Greek", "Latin", "Lu", "L", "ASCII", "Any", "RGI_Emoji", "x", "_", " "];
    let wn = if thorough { 6 } else { 5 };
    let wtotal = total_strings(words.len() as u64, wn);
    let wchunks = (wtotal + chunk - 1) / chunk;
    let st_e = (0..wchunks)
        .into_par_iter()
        .fold(Stats::default, |mut st, ci| {
            for idx in ci * chunk..((ci + 1) * chunk).min(wtotal) {
                let widx: Vec<u32> = token_string(&(0..words.len() as u32).collect::<Vec<u32>>(), idx);
                let body: String = widx.iter().map(|&i| words[i as usize]).collect();
                for tpl in ["\\p{E}", "\\P{E}", "[\\p{E}]", "[^\\P{E}a]", "\\p{E", "\\pE}"] {
                    let pat: Vec<u32> = tpl.replace('E', &body).chars().map(|c| c as u32).collect();
                    for m in MODES {
                        judge(&pat, Flags::parse(m), &mut st, runref, "property expression words");
                    }
                }
            }
            st
        })
        .reduce(Stats::default, Stats::merge);
    st = st.merge(st_e);
    // (f) every name the subject's own tables mention (a newly added alias or property is a candidate too),
    // in every property-expression position
    let src_names = crate::c11::names_in_subject_source();
    let st_f = src_names
        .par_iter()
        .fold(Stats::default, |mut st, nm| {
            for tpl in ["\\p{N}", "\\P{N}", "[\\p{N}]", "\\p{gc=N}", "\\p{General_Category=N}", "\\p{sc=N}", "\\p{Script=N}", "\\p{scx=N}", "\\p{Script_Extensions=N}", "\\p{N=Yes}", "[^\\P{N}]"] {
                let pat: Vec<u32> = tpl.replace('N', nm).chars().map(|c| c as u32).collect();
                for m in MODES {
                    judge(&pat, Flags::parse(m), &mut st, runref, "property name from the subject's tables");
                }
            }
            st
        })
        .reduce(Stats::default, Stats::merge);
    st = st.merge(st_f);
    run.extra.push(("names_from_subject_tables".into(), J::u(src_names.len() as u64)));
    run.rule = format!(
        "(f) every string literal in the subject's own property-name tables in 11 property-expression templates x {{legacy, u, v}}; (e) every sequence of <= {} words from {{sc scx gc Script General_Category = Greek Latin Lu L ASCII Any RGI_Emoji x _ space}} as the body of \\p{{..}} / \\P{{..}}, bare, in a class, and unterminated, x {{legacy, u, v}}; (a) every string over the {}-token alphabet {:?} of length <= {} x {{legacy, u, v}}; (b) {} seed patterns (printed from the named/mods/look/core/onechar/icase profiles plus hand-written structured syntax) x all single-token edits (delete, replace, insert at every position over a 28-token alphabet); (c) every string over the focused alphabet {{[ ] ( ) a \\ 1}} up to length 8 (9 thorough); (d) 29 size-parameterised shapes x sizes up to 1000 (nesting shapes up to 200, below the documented limits); verdict = with_flags(p,f).is_ok() <=> p in L(ES2025 Pattern[f]) as decided by the reference parser; non-trivial = the string is a valid pattern",
        wn,
        toks.len(),
        TOKENS,
        n,
        nseeds
    );
    run.assumptions = vec![
        "reference parser mc/src/refparse.rs = ES2025 22.2.1 + Annex B.1.2 + early errors; cross-checked against V8 11.3 on all token strings <= 4 (tools/v8_tokens.js + mc xcheck-parse), except inline modifiers and duplicate named groups, which V8 11.3 does not implement".into(),
        "acceptance only; what an accepted pattern means is C01 / C12".into(),
    ];
    st
}

/// Oracle self-check: refparse vs V8 bitmaps written by tools/v8_tokens.js.
pub fn xcheck_parse(n: usize, prefix: &str) -> i32 {
    let toks: Vec<u32> = TOKENS.chars().map(|c| c as u32).collect();
    let total = total_strings(toks.len() as u64, n);
    let mut bad = 0u64;
    let mut skipped = 0u64;
    for (mode, file) in [("", "legacy"), ("u", "u"), ("v", "v")] {
        let path = format!("{}_{}.bin", prefix, file);
        let Ok(buf) = std::fs::read(&path) else {
            eprintln!("missing {}", path);
            return 2;
        };
        if buf.len() as u64 != total {
            eprintln!("size mismatch {} vs {}", buf.len(), total);
            return 2;
        }
        let fl = Flags::parse(mode);
        let res: Vec<(u64, bool, bool)> = (0..total)
            .into_par_iter()
            .filter_map(|idx| {
                let pat = token_string(&toks, idx);
                let s: String = pat.iter().map(|&c| char::from_u32(c).unwrap()).collect();
                // V8 11.3 has no inline modifiers
                if s.contains("(?i") || s.contains("(?m") || s.contains("(?s") || s.contains("(?-") {
                    return Some((idx, true, true));
                }
                let r = refparse::parse(&pat, fl).is_ok();
                let v = buf[idx as usize] == 1;
                if r != v {
                    Some((idx, r, v))
                } else {
                    None
                }
            })
            .collect();
        for (idx, r, v) in res {
            if r == v {
                skipped += 1;
                continue;
            }
            bad += 1;
            if bad <= 60 {
                println!("DISAGREE mode={:?} /{}/ refparse={} v8={}", mode, print::show(&token_string(&toks, idx)), r, v);
            }
        }
    }
    println!("xcheck-parse: {} strings x 3 modes, {} skipped (modifier syntax), {} disagreements", total, skipped, bad);
    if bad > 0 {
        1
    } else {
        0
    }
}
