use mc::report::Run;
use mc::sweep::{self, Prop};

fn usage() -> ! {
    eprintln!("usage: mc <C01..C20|replay> [args]   (tier from VERIF_TIER, profiles from VERIF_PROFILES)");
    std::process::exit(2);
}

fn profiles_env(default: &[&'static str]) -> Vec<&'static str> {
    match std::env::var("VERIF_PROFILES") {
        Ok(s) if !s.is_empty() => {
            let mut v = Vec::new();
            for name in s.split(',') {
                if name == "tokens" || name == "scale" {
                    continue;
                }
                match mc::profiles::ALL.iter().find(|n| **n == name) {
                    Some(n) => v.push(*n),
                    None => {
                        eprintln!("unknown profile {}", name);
                        std::process::exit(2)
                    }
                }
            }
            v
        }
        _ => default.to_vec(),
    }
}

fn main() {
    mc::subject::install_quiet_panic_hook();
    let args: Vec<String> = std::env::args().collect();
    if args.len() < 2 {
        usage();
    }
    if args[1] == "c07-child" {
        std::process::exit(mc::c07::child(&args[2..]));
    }
    let threads = std::env::var("VERIF_THREADS").ok().and_then(|s| s.parse().ok()).unwrap_or(16usize);
    rayon::ThreadPoolBuilder::new().num_threads(threads).stack_size(64 << 20).build_global().unwrap();
    if let Some(p) = args.iter().position(|a| a == "--replay") {
        let Some(file) = args.get(p + 1) else { usage() };
        std::process::exit(mc::replay::replay_file(file));
    }
    let code = match args[1].as_str() {
        "case" => mc::replay::adhoc(&args[2..]),
        "dump-classes" => mc::v8x::dump_classes(&args[2]),
        "dump-cases" => mc::v8x::dump(&args[2], args[3].parse().unwrap(), args[4].parse().unwrap(), &args[5]),
        "C01" => sweep_cmd(Prop::C01, &["core", "capback", "anchor", "dotcap", "vset", "dupref", "look", "nest", "nestlook", "utf8", "icase", "lit", "onechar", "named", "mods", "longlook", "vlook", "fail", "icaseback"]),
        "C02" => sweep_cmd(Prop::C02, &["core", "capback", "anchor", "dotcap", "vset", "dupref", "look", "nest", "nestlook", "utf8", "icase", "lit", "onechar", "named", "mods", "longlook", "vlook", "fail", "icaseback"]),
        "C03" => sweep_cmd(Prop::C03, &["core", "capback", "anchor", "dotcap", "vset", "dupref", "look", "nest", "nestlook", "utf8", "icase", "lit", "onechar", "named", "mods", "longlook", "vlook", "fail", "icaseback"]),
        "C04" => sweep_cmd(Prop::C04, &["core", "anchor", "look", "utf8", "icase", "lit", "onechar", "mods"]),
        "C05" => sweep_cmd(Prop::C05, &["loops", "nest", "nestlook", "core", "capback", "onechar"]),
        "C09" => sweep_cmd(Prop::C09, &["core", "capback", "anchor", "vset", "look", "utf8", "lit", "onechar"]),
        "C13" => sweep_cmd(Prop::C13, &["core", "look", "nest", "icase", "lit", "onechar", "mods", "utf8"]),
        "c06-worker" => mc::c06::worker(&args[2]),
        "C06" => {
            let mut run = Run::new("C06", "exploration");
            let workers: Vec<String> = std::env::var("C06_WORKERS").unwrap_or_default().split(',').filter(|s| !s.is_empty()).map(|s| s.to_string()).collect();
            let stats = mc::c06::c06(&mut run, &workers);
            run.finish(&stats)
        }
        "C07" => {
            let mut run = Run::new("C07", "exploration");
            let stats = mc::c07::c07(&mut run);
            run.finish(&stats)
        }
        "C08" => simple_cmd("C08", mc::c08::c08),
        "xcheck-parse" => mc::c08::xcheck_parse(args[2].parse().unwrap(), &args[3]),
        "C10" => simple_cmd("C10", mc::c10::c10),
        "C11" => simple_cmd("C11", mc::c11::c11),
        "C12" => simple_cmd("C12", mc::c12::c12),
        #[cfg(feature = "utf16")]
        "C14" => simple_cmd("C14", mc::c14::c14),
        "c15-worker" => mc::c15::worker(&args[2]),
        "c15-dump" => {
            let key = u64::from_str_radix(&args[2], 16).unwrap();
            mc::c06::FOCUS.store(key, std::sync::atomic::Ordering::Relaxed);
            let run = Run::new("C15", "model_checking");
            let _ = mc::c15::explore_all(&run);
            let mut lines = mc::c06::FOCUS_LINES.lock().unwrap().clone();
            lines.sort();
            for l in lines {
                println!("{}", l);
            }
            0
        }
        "C15" => {
            let mut run = Run::new("C15", "model_checking");
            let workers: Vec<String> = std::env::var("C15_WORKERS").unwrap_or_default().split(',').filter(|s| !s.is_empty()).map(|s| s.to_string()).collect();
            let stats = mc::c15::c15(&mut run, &workers);
            run.finish(&stats)
        }
        #[cfg(feature = "hooks")]
        "C19" => simple_cmd("C19", mc::c19::c19),
        #[cfg(feature = "pattern")]
        "C20" => simple_cmd("C20", mc::c20::c20),
        "C16" => simple_cmd("C16", mc::apichecks::c16),
        "C17" => simple_cmd("C17", mc::apichecks::c17),
        "C18" => simple_cmd("C18", mc::apichecks::c18),
        _ => usage(),
    };
    std::process::exit(code);
}

fn sweep_cmd(prop: Prop, default_profiles: &[&'static str]) -> i32 {
    let mut run = Run::new(prop.id(), "model_checking");
    let profs = profiles_env(default_profiles);
    run.rule = format!(
        "every AST of each profile up to its size bound (smallest first, deduplicated by printed form below the top size) x the profile's flag sets x every haystack over the profile's alphabet up to its length bound x every start offset (each char boundary, len, len+1); a case is non-trivial when a match exists; profiles: {}",
        profs.join(",")
    );
    run.assumptions = vec![
        "reference matcher = ES2025 22.2.2 transcribed on code-point input (mc/src/refmatch.rs); Canonicalize from oracle/ tables (ICU 78.2, Unicode 17)".into(),
        "bounded: pattern size, haystack length and alphabets as listed under coverage.profiles".into(),
    ];
    let stats = sweep::run(&mut run, prop, &profs);
    run.finish(&stats)
}

fn simple_cmd(id: &str, f: fn(&mut Run) -> mc::report::Stats) -> i32 {
    let mut run = Run::new(id, "model_checking");
    let stats = f(&mut run);
    run.finish(&stats)
}
