//! Oracle for Unicode property escapes (Unicode 17, generated from ICU; see tools/gen_props_oracle.js).
use std::collections::HashMap;
use std::rc::Rc;
use std::sync::OnceLock;

pub enum PropVal {
    Set(Rc<Vec<(u32, u32)>>),
    Strings(Rc<Vec<Vec<u32>>>),
}

pub struct PropTables {
    /// expression text (as written between the braces) -> interval list
    pub sets: HashMap<String, Vec<(u32, u32)>>,
    /// property-of-strings name -> strings
    pub strings: HashMap<String, Vec<Vec<u32>>>,
}

static TABLES: OnceLock<PropTables> = OnceLock::new();

fn parse_intervals(s: &str) -> Vec<(u32, u32)> {
    let mut v = Vec::new();
    for tok in s.split_whitespace() {
        if let Some((a, b)) = tok.split_once('-') {
            v.push((u32::from_str_radix(a, 16).unwrap(), u32::from_str_radix(b, 16).unwrap()));
        } else {
            let a = u32::from_str_radix(tok, 16).unwrap();
            v.push((a, a));
        }
    }
    v
}

fn load() -> PropTables {
    let dir = crate::fold::root().join("oracle");
    let mut sets = HashMap::new();
    let mut strings = HashMap::new();
    if let Ok(txt) = std::fs::read_to_string(dir.join("props_u17.tsv")) {
        for line in txt.lines() {
            if line.starts_with('#') || line.is_empty() {
                continue;
            }
            let mut it = line.splitn(2, '\t');
            let name = it.next().unwrap();
            let ivs = it.next().unwrap_or("");
            sets.insert(name.to_string(), parse_intervals(ivs));
        }
    }
    if let Ok(txt) = std::fs::read_to_string(dir.join("strings_u17.tsv")) {
        for line in txt.lines() {
            if line.starts_with('#') || line.is_empty() {
                continue;
            }
            let mut it = line.splitn(2, '\t');
            let name = it.next().unwrap();
            let rest = it.next().unwrap_or("");
            let mut v = Vec::new();
            for s in rest.split(' ') {
                if s.is_empty() {
                    continue;
                }
                v.push(s.split('+').map(|h| u32::from_str_radix(h, 16).unwrap()).collect());
            }
            strings.insert(name.to_string(), v);
        }
    }
    PropTables { sets, strings }
}

pub fn tables() -> &'static PropTables {
    TABLES.get_or_init(load)
}

/// Look up the text between the braces of \p{...}. `vmode` admits properties of strings.
pub fn lookup(expr: &str, vmode: bool) -> Option<PropVal> {
    let t = tables();
    if let Some(iv) = t.sets.get(expr) {
        return Some(PropVal::Set(Rc::new(iv.clone())));
    }
    if vmode {
        if let Some(s) = t.strings.get(expr) {
            return Some(PropVal::Strings(Rc::new(s.clone())));
        }
    }
    None
}
