//! Oracle for Unicode property escapes (Unicode 17, generated from ICU by tools/gen_props_oracle.js
//! and tools/gen_strings_oracle.js; V8 is the judge of which expressions ES admits).
use std::collections::HashMap;
use std::rc::Rc;
use std::sync::OnceLock;

pub enum PropVal {
    Set(Rc<Vec<(u32, u32)>>),
    Strings(Rc<Vec<Vec<u32>>>),
}

pub struct PropTables {
    /// distinct interval sets
    pub sets: Vec<Vec<(u32, u32)>>,
    /// accepted expression (text between the braces) -> index into sets
    pub names: HashMap<String, usize>,
    /// expressions V8 rejects
    pub rejected: Vec<String>,
    /// property-of-strings name -> accepted strings
    pub strings: HashMap<String, Vec<Vec<u32>>>,
    /// every string that was judged when the oracle was generated
    pub universe: Vec<Vec<u32>>,
}

static TABLES: OnceLock<PropTables> = OnceLock::new();

fn parse_intervals(s: &str) -> Vec<(u32, u32)> {
    let mut v = Vec::new();
    for tok in s.split_whitespace() {
        if let Some((a, b)) = tok.split_once('-') {
            v.push((u32::from_str_radix(a, 16).unwrap(), u32::from_str_radix(b, 16).unwrap()));
        } else {
            let a = u32::from_str_radix(tok, 16).unwrap();
            v.push((a, a));
        }
    }
    v
}

fn parse_seq(s: &str) -> Vec<u32> {
    s.split('+').map(|h| u32::from_str_radix(h, 16).unwrap()).collect()
}

fn unquote(s: &str) -> String {
    // JSON string as written by the generator (ASCII content, simple escapes only)
    match crate::json::parse(s) {
        Ok(crate::json::J::Str(x)) => x,
        _ => s.to_string(),
    }
}

fn load() -> PropTables {
    let dir = crate::fold::root().join("oracle");
    let mut sets = Vec::new();
    let mut set_ids: HashMap<String, usize> = HashMap::new();
    let mut names = HashMap::new();
    let mut rejected = Vec::new();
    let mut strings = HashMap::new();
    let mut universe = Vec::new();
    let rd = |n: &str| std::fs::read_to_string(dir.join(n)).unwrap_or_else(|e| panic!("oracle/{}: {}", n, e));
    for line in rd("props_sets_u17.tsv").lines() {
        if line.starts_with('#') || line.is_empty() {
            continue;
        }
        let (id, ivs) = line.split_once('\t').unwrap_or((line, ""));
        set_ids.insert(id.to_string(), sets.len());
        sets.push(parse_intervals(ivs));
    }
    for line in rd("props_names_u17.tsv").lines() {
        if line.starts_with('#') || line.is_empty() {
            continue;
        }
        let (name, id) = line.split_once('\t').unwrap();
        names.insert(name.to_string(), set_ids[id.trim_start_matches('@')]);
    }
    for line in rd("props_rejected_u17.txt").lines() {
        if line.starts_with('#') || line.is_empty() {
            continue;
        }
        rejected.push(unquote(line));
    }
    for line in rd("strings_u17.tsv").lines() {
        if line.starts_with('#') || line.is_empty() {
            continue;
        }
        let (name, rest) = line.split_once('\t').unwrap_or((line, ""));
        strings.insert(name.to_string(), rest.split(' ').filter(|s| !s.is_empty()).map(parse_seq).collect());
    }
    for line in rd("strings_universe_u17.txt").lines() {
        if line.starts_with('#') || line.is_empty() {
            continue;
        }
        universe.push(parse_seq(line));
    }
    PropTables { sets, names, rejected, strings, universe }
}

pub fn tables() -> &'static PropTables {
    TABLES.get_or_init(load)
}

/// Look up the text between the braces of \p{...}. `vmode` admits properties of strings.
pub fn lookup(expr: &str, vmode: bool) -> Option<PropVal> {
    let t = tables();
    if let Some(&i) = t.names.get(expr) {
        return Some(PropVal::Set(Rc::new(t.sets[i].clone())));
    }
    if vmode {
        if let Some(s) = t.strings.get(expr) {
            return Some(PropVal::Strings(Rc::new(s.clone())));
        }
    }
    None
}
