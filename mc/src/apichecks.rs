//! C16 (Match accessors), C17 (replace / replace_all), C18 (escape).
use crate::ast::*;
use crate::enumerate::{self, Hay};
use crate::fold;
use crate::json::J;
use crate::print;
use crate::refmatch;
use crate::report::{Known, Run, Stats};
use crate::subject::{self, CompileOutcome, Outcome};
use crate::sweep;
use rayon::prelude::*;

type Rng = Option<(usize, usize)>;
fn r2(o: Option<std::ops::Range<usize>>) -> Rng {
    o.map(|r| (r.start, r.end))
}
fn rj(r: &Rng) -> J {
    match r {
        Some((a, b)) => J::Arr(vec![J::u(*a as u64), J::u(*b as u64)]),
        None => J::Null,
    }
}

// ---------------------------------------------------------------- C16

pub fn c16_eval(ast: &Node, flags: Flags, hays: &[Hay], known: &Known, st: &mut Stats) {
    st.add("patterns_generated", 1);
    if ast.validate(flags).is_err() {
        st.add("patterns_outside_language", 1);
        return;
    }
    let pat = print::print(ast);
    crate::subject::set_case_desc(format!("/{}/{} (C16)", print::show(&pat), flags.to_string()));
    let re = match subject::compile(&pat, flags, false) {
        CompileOutcome::Ok(re) => re,
        _ => {
            st.add("patterns_rejected_by_subject", 1);
            return;
        }
    };
    let prog = match refmatch::compile(ast, flags) {
        Ok(p) => p,
        Err(_) => {
            st.add("patterns_unsupported_by_reference", 1);
            return;
        }
    };
    st.add("patterns_evaluated", 1);
    let mut names: Vec<Option<String>> = Vec::new();
    ast.group_names(&mut names);
    let ngroups = names.len();
    // distinct names in source order
    let mut distinct: Vec<String> = Vec::new();
    for n in names.iter().flatten() {
        if !distinct.contains(n) {
            distinct.push(n.clone());
        }
    }
    for hay in hays {
        let rt = sweep::ref_table(&prog, hay, 2_000_000);
        if rt.cut {
            st.add("reference_cut", 1);
            continue;
        }
        let expected = rt.all_from(0, hay);
        let text = hay.text.as_str();
        // a Match is a Match whichever executor produced it: the default one and the PikeVM
        for pike in [false, true] {
        #[cfg(not(feature = "pikevm"))]
        if pike {
            continue;
        }
        let got = subject::guarded(500_000, || -> Vec<regress::Match> {
            #[cfg(feature = "pikevm")]
            if pike {
                return regress::backends::find::<regress::backends::PikeVMExecutor>(&re, text, 0).take(16).collect();
            }
            re.find_iter(text).take(16).collect()
        });
        st.add("transitions", subject::steps());
        let ms = match got {
            Outcome::Ok(v) => v,
            Outcome::Fuel => {
                st.add("undecided_fuel", 1);
                continue;
            }
            Outcome::Panic(m) => {
                let cl = format!("panic /{}/{}", sweep::shape(&pat), flags.to_string());
                st.violation(known, "C16", &cl, pat.len(), sweep::case_json(&pat, flags, hay, 0, "panic in find_iter", J::Null, J::s(&m)));
                continue;
            }
        };
        for (mi, m) in ms.iter().enumerate() {
            st.add("evaluations", 1);
            st.add("validated", 1);
            if ngroups > 0 {
                st.add("nontrivial", 1);
            }
            let mut bad: Vec<(String, J, J)> = Vec::new();
            if m.captures.len() != ngroups {
                bad.push(("captures.len() differs from the number of capturing groups".into(), J::u(ngroups as u64), J::u(m.captures.len() as u64)));
            }
            // captures vs reference (left-paren order, last participation)
            if let Some(e) = expected.get(mi) {
                let gotcaps: Vec<Rng> = m.captures.iter().map(|c| r2(c.clone())).collect();
                if gotcaps != e.caps || (m.range.start, m.range.end) != (e.start, e.end) {
                    bad.push(("match or capture slots differ from the reference".into(), sweep::smatch_json(e), sweep::smatch_json(&subject::SMatch::from(m))));
                }
            } else {
                bad.push(("more matches than the reference".into(), J::Null, sweep::smatch_json(&subject::SMatch::from(m))));
            }
            if r2(m.group(0)) != Some((m.range.start, m.range.end)) {
                bad.push(("group(0) is not the whole match".into(), rj(&Some((m.range.start, m.range.end))), rj(&r2(m.group(0)))));
            }
            for i in 0..m.captures.len() {
                if r2(m.group(i + 1)) != r2(m.captures[i].clone()) {
                    bad.push((format!("group({}) differs from captures[{}]", i + 1, i), rj(&r2(m.captures[i].clone())), rj(&r2(m.group(i + 1)))));
                }
            }
            if m.group(m.captures.len() + 1).is_some() {
                bad.push(("group(n+1) is not None".into(), J::Null, rj(&r2(m.group(m.captures.len() + 1)))));
            }
            let gs: Vec<Rng> = m.groups().map(r2).collect();
            let exp_gs: Vec<Rng> = (0..=m.captures.len()).map(|i| r2(m.group(i))).collect();
            if gs != exp_gs {
                bad.push(("groups() differs from group(0..=n)".into(), J::Arr(exp_gs.iter().map(rj).collect()), J::Arr(gs.iter().map(rj).collect())));
            }
            if m.groups().len() != m.captures.len() + 1 {
                bad.push(("groups().len() wrong".into(), J::u(m.captures.len() as u64 + 1), J::u(m.groups().len() as u64)));
            }
            // named groups: each distinct name once, in source order, with the participating duplicate
            let ng: Vec<(String, Rng)> = m.named_groups().map(|(n, r)| (n.to_string(), r2(r))).collect();
            let exp_ng: Vec<(String, Rng)> = distinct
                .iter()
                .map(|name| {
                    let mut val: Rng = None;
                    for (i, n) in names.iter().enumerate() {
                        if n.as_deref() == Some(name.as_str()) {
                            if let Some(Some(r)) = m.captures.get(i) {
                                val = Some((r.start, r.end));
                            }
                        }
                    }
                    (name.clone(), val)
                })
                .collect();
            let show = |v: &Vec<(String, Rng)>| J::Arr(v.iter().map(|(n, r)| J::Arr(vec![J::s(n), rj(r)])).collect());
            if ng != exp_ng {
                bad.push(("named_groups() differs from (distinct names in source order, participating group)".into(), show(&exp_ng), show(&ng)));
            }
            for (name, val) in &exp_ng {
                let got = r2(m.named_group(name));
                if got != *val {
                    bad.push((format!("named_group(\"{}\") does not report the participating group", name), rj(val), rj(&got)));
                }
            }
            if m.named_group("").is_some() {
                bad.push(("named_group(\"\") is not None".into(), J::Null, rj(&r2(m.named_group("")))));
            }
            if m.named_group("zz").is_some() {
                bad.push(("named_group(unknown) is not None".into(), J::Null, rj(&r2(m.named_group("zz")))));
            }
            if m.as_str(text) != &text[m.range()] || m.start() != m.range.start || m.end() != m.range.end {
                bad.push(("as_str/start/end inconsistent with range".into(), J::Null, J::Null));
            }
            if bad.is_empty() {
                if !distinct.is_empty() {
                    st.sample(|| sweep::case_json(&pat, flags, hay, 0, "accessor identities hold", J::Null, show(&ng)));
                }
            }
            for (what, e, g) in bad {
                let cl = format!("{}{} /{}/{}", what, if pike { " (PikeVM)" } else { "" }, sweep::shape(&pat), flags.to_string());
                st.violation(known, "C16", &cl, pat.len() * 8 + hay.cps.len(), sweep::case_json(&pat, flags, hay, 0, &what, e, g).set("match_index", J::u(mi as u64)).set("executor", J::s(if pike { "PikeVM" } else { "default (backtracking)" })));
            }
        }
        }
    }
}

/// Duplicate names over two to four alternatives (which one participated: first, middle, last).
fn dup_family() -> Vec<Node> {
    let a = || Node::Char('a' as u32);
    let b = || Node::Char('b' as u32);
    let arms: Vec<Node> = vec![Node::named(a(), "n"), Node::named(b(), "n"), Node::named(Node::Empty, "n"), Node::named(Node::named(a(), "m"), "n"), Node::Cat(vec![Node::named(a(), "m"), Node::named(b(), "n")]), Node::group(b()), a()];
    let mut out = Vec::new();
    let k = arms.len();
    for len in 2..=4usize {
        let total = k.pow(len as u32);
        for idx in 0..total {
            let mut v = Vec::new();
            let mut r = idx;
            for _ in 0..len {
                v.push(arms[r % k].clone());
                r /= k;
            }
            let alt = Node::Alt(v);
            out.push(alt.clone());
            out.push(Node::Cat(vec![Node::NonCap(Box::new(alt.clone())), Node::NamedRef("n".into())]));
            out.push(Node::Cat(vec![Node::look(true, false, alt.clone()), Node::NamedRef("n".into())]));
            out.push(Node::quant(Node::NonCap(Box::new(alt)), 0, None, true));
        }
    }
    out
}

pub fn c16(run: &mut Run) -> Stats {
    run.rule = "every alternation of 2-4 arms from a 7-arm menu of (duplicate-)named groups, alone, before \\k<n>, inside a lookbehind and under *; every AST of P-named (named, unnamed and duplicate-named groups, \\k and \\1 references, lookbehind, quantifiers), P-look, P-core, P-fail and P-capback up to the size bound x flags x every haystack x every match of find_iter, from the default executor and from the PikeVM; non-trivial = the pattern has at least one capturing group".into();
    run.assumptions = vec!["captures are compared with the ES2025 reference matcher; the accessor identities are checked on every match".into()];
    let st = sweep::drive(run, "C16", &["named", "look", "core", "fail", "capback"], &|sp, th| enumerate::all_hays(&sp.alphabet, if th { sp.hay_thorough } else { sp.hay_quick }), &c16_eval);
    let fam = dup_family();
    let hays = enumerate::all_hays(&enumerate::chars("ab"), 3);
    let known = &run.known;
    let st2 = fam
        .par_iter()
        .fold(Stats::default, |mut st, ast| {
            for f in ["", "u"] {
                c16_eval(ast, Flags::parse(f), &hays, known, &mut st);
            }
            st
        })
        .reduce(Stats::default, Stats::merge);
    run.extra.push(("duplicate_name_family".into(), J::obj().set("patterns", J::u(fam.len() as u64)).set("evaluations", J::u(st2.get("evaluations")))));
    // the size-parameterised families with capture groups (17th group, 256 named groups, optional groups,
    // groups under counts and long loops)
    let scale: Vec<(String, &'static str, Vec<String>)> = sweep::scale_family(run.thorough()).into_iter().filter(|(p, _, _)| p.contains('(') && !p.contains("(?:q|")).collect();
    let st3 = scale
        .par_iter()
        .fold(Stats::default, |mut st, (p, f, hs)| {
            let pat: Vec<u32> = p.chars().map(|c| c as u32).collect();
            let fl = Flags::parse(f);
            if let Ok(ast) = crate::refparse::parse(&pat, fl) {
                let hays: Vec<Hay> = hs.iter().map(|h| Hay::new(h.chars().map(|c| c as u32).collect())).collect();
                c16_eval(&ast, fl, &hays, known, &mut st);
            }
            st
        })
        .reduce(Stats::default, Stats::merge);
    run.extra.push(("size_parameterised_family".into(), J::obj().set("patterns", J::u(scale.len() as u64)).set("evaluations", J::u(st3.get("evaluations")))));
    st.merge(st2).merge(st3)
}

// ---------------------------------------------------------------- C17

/// The ten-line model of replacement-template expansion (C17's statement).
/// Returns None when the template is outside the model's opinion (a digit run that reaches the
/// implementation's overflow cap).
pub fn expand_model(template: &str, text: &str, whole: (usize, usize), caps: &[Rng], names: &[(String, Rng)]) -> Option<String> {
    let t: Vec<char> = template.chars().collect();
    let mut out = String::new();
    let mut i = 0;
    while i < t.len() {
        if t[i] != '$' {
            out.push(t[i]);
            i += 1;
            continue;
        }
        match t.get(i + 1) {
            Some('$') => {
                out.push('$');
                i += 2;
            }
            Some(d) if d.is_ascii_digit() => {
                let mut j = i + 1;
                let mut n: u64 = 0;
                while j < t.len() && t[j].is_ascii_digit() {
                    n = n * 10 + t[j].to_digit(10).unwrap() as u64;
                    if n > 65535 {
                        return None;
                    }
                    j += 1;
                }
                let r: Rng = if n == 0 { Some(whole) } else { caps.get(n as usize - 1).cloned().flatten() };
                if let Some((a, b)) = r {
                    out.push_str(&text[a..b]);
                }
                i = j;
            }
            Some('{') => {
                match t[i + 2..].iter().position(|&c| c == '}') {
                    Some(p) => {
                        let name: String = t[i + 2..i + 2 + p].iter().collect();
                        if let Some((_, Some((a, b)))) = names.iter().find(|(n, _)| *n == name) {
                            out.push_str(&text[*a..*b]);
                        }
                        i = i + 2 + p + 1;
                    }
                    None => {
                        // unterminated: literal
                        out.extend(t[i..].iter());
                        i = t.len();
                    }
                }
            }
            _ => {
                out.push('$');
                i += 1;
            }
        }
    }
    Some(out)
}

/// The participating group per distinct name, computed from the pattern's own group names (reference parse)
/// and a capture list - nothing is read back from the subject's name tables.
fn named_model(names: &[Option<String>], caps: &[Rng]) -> Vec<(String, Rng)> {
    let mut out: Vec<(String, Rng)> = Vec::new();
    for (i, n) in names.iter().enumerate() {
        let Some(n) = n else { continue };
        let v = caps.get(i).cloned().flatten();
        match out.iter_mut().find(|(k, _)| k == n) {
            Some(e) => {
                if v.is_some() {
                    e.1 = v;
                }
            }
            None => out.push((n.clone(), v)),
        }
    }
    out
}

/// Reference match sequence (ranges and captures) of a menu entry: reference parser + reference matcher.
fn reference_matches(p: &str, f: &str, h: &str) -> Option<(Vec<Option<String>>, Vec<subject::SMatch>)> {
    let pat: Vec<u32> = p.chars().map(|c| c as u32).collect();
    let fl = Flags::parse(f);
    let ast = crate::refparse::parse(&pat, fl).ok()?;
    let mut names: Vec<Option<String>> = Vec::new();
    ast.group_names(&mut names);
    let prog = refmatch::compile(&ast, fl).ok()?;
    let hay = Hay::new(h.chars().map(|c| c as u32).collect());
    let rt = sweep::ref_table(&prog, &hay, 5_000_000);
    if rt.cut {
        return None;
    }
    Some((names, rt.all_from(0, &hay)))
}

static C17_HORIZON_HITS: std::sync::atomic::AtomicU64 = std::sync::atomic::AtomicU64::new(0);

pub fn c17(run: &mut Run) -> Stats {
    let thorough = run.thorough();
    let tlen = if thorough { 6 } else { 5 };
    let alphabet: Vec<char> = vec!['$', '0', '1', '2', '9', '{', '}', 'n', 'x', 'é'];
    run.rule = format!(
        "all templates over {{$ 0 1 2 9 {{ }} n x é}} of length <= {} plus all sequences of <= 4 (5 thorough) tokens from {{$ $$ $0 $1 $2 $12 $9 ${{n}} ${{x}} ${{nx}} ${{ ${{}} }} {{ n é 0}} plus \"$\" followed by every digit string over {{0 1 2 6 9}} of length <= 7 (9 thorough), bare or followed by x or $1, x a menu of (pattern, flags, haystack) whose match sequences cover: no match, one, adjacent, empty matches at every position incl. around multibyte characters, non-participating and named groups; replace, replace_all, replace_with, replace_all_with; non-trivial = the template contains a $ and the regex matches",
        tlen
    );
    run.assumptions = vec!["model: splice-and-expand (mc/src/apichecks.rs expand_model) over the match sequence of the reference parser + reference matcher, names taken from the reference parse: nothing is read back from the subject".into()];
    let menu: Vec<(&str, &str, &str)> = vec![
        ("b", "", "aaa"),
        ("a", "", "a"),
        ("a", "", "xaxax"),
        ("a", "", "aa"),
        ("", "", "aé😀"),
        ("a*", "", "baab"),
        ("(a)|(b)", "", "ab"),
        ("(a)|(b)", "", "éba"),
        ("(?<n>a)|(?<x>b)", "", "ab"),
        ("(?<n>a)|(?<x>b)", "", "b"),
        ("(?<n>\\w+) (?<x>\\w+)", "", "ab ba"),
        ("(?<n>a)|(?<n>b)", "", "ba"),
        ("(?<n>é)(x)?", "", "éxé"),
        ("(a)(b)(c)(d)(e)(f)(g)(h)(i)(j)(k)(l)", "", "abcdefghijkl"),
        ("\\b", "", "a é a"),
        ("$", "", "aé"),
        ("^", "m", "a\né"),
        ("(?<=(a))x", "", "axax"),
        ("(.)\\1", "", "aabbé"),
        ("(a)|b", "i", "AbB"),
        ("(?:)", "", ""),
        ("x", "", ""),
        ("(?<nx>😀)", "u", "a😀😀"),
        ("(é)*", "", "ééaé"),
        // three duplicates of one name; groups that participate in one match and not in the next
        ("(?<n>a)|(?<n>b)|(?<n>c)", "", "cab"),
        ("(?:(?<n>a)|(?<n>b)|(?<x>c))+", "", "xxabcxxba"),
        ("(a)|(b)", "", "abba"),
        ("(?<n>\\w+)=(?<x>\\d+)|(?<nx>--\\w+)", "", "n=1 --v m=2"),
        ("x*", "", "é"),
        ("(?=é)", "", "aéb"),
        // a named group inside a lookbehind, left of another group (emitted right to left)
        ("(?<=(?<n>[a-z]+)=(\\d+));", "", "ab=1;cd=22;"),
        ("(?<=(?<n>a)(b))(?<x>c)?", "", "abc ab"),
    ];
    // all templates
    let mut templates: Vec<String> = vec![String::new()];
    let mut prev: Vec<String> = vec![String::new()];
    for _ in 0..tlen {
        let mut next = Vec::with_capacity(prev.len() * alphabet.len());
        for p in &prev {
            for &a in &alphabet {
                let mut q = p.clone();
                q.push(a);
                next.push(q);
            }
        }
        templates.extend(next.iter().cloned());
        prev = next;
    }
    // token-level templates: sequences of whole references and fragments (reaches multi-reference
    // templates such as "${x}${n}" that the character-level enumeration cannot at this length)
    {
        let toks = ["$", "$$", "$0", "$1", "$2", "$12", "$9", "${n}", "${x}", "${nx}", "${", "${}", "}", "{", "n", "é", "0"];
        let tl = if thorough { 5 } else { 4 };
        let mut prevt: Vec<String> = vec![String::new()];
        let mut seen: std::collections::HashSet<String> = templates.iter().cloned().collect();
        for _ in 0..tl {
            let mut next = Vec::new();
            for p in &prevt {
                for t in toks {
                    let q = format!("{}{}", p, t);
                    next.push(q);
                }
            }
            for q in &next {
                if seen.insert(q.clone()) {
                    templates.push(q.clone());
                }
            }
            prevt = next;
        }
    }
    // digit runs: "$" + every digit string over {0 1 2 6 9} of length <= 7 (9 thorough), bare and followed by a
    // literal (leading zeros, references beyond the last group, the extent of the reference)
    {
        let digits = ['0', '1', '2', '6', '9'];
        let dl = if thorough { 9 } else { 7 };
        let mut seen: std::collections::HashSet<String> = templates.iter().cloned().collect();
        let mut prevd: Vec<String> = vec!["$".to_string()];
        for _ in 0..dl {
            let mut next = Vec::with_capacity(prevd.len() * digits.len());
            for p in &prevd {
                for d in digits {
                    next.push(format!("{}{}", p, d));
                }
            }
            for q in &next {
                for suffix in ["", "x", "$1"] {
                    let t = format!("{}{}", q, suffix);
                    if seen.insert(t.clone()) {
                        templates.push(t);
                    }
                }
            }
            prevd = next;
        }
    }
    let known = run.known.clone();
    let compiled: Vec<(regress::Regex, &str, &str, &str)> = menu
        .iter()
        .map(|(p, f, h)| (regress::Regex::with_flags(p, *f).unwrap_or_else(|e| panic!("menu pattern {} does not compile: {}", p, e)), *p, *f, *h))
        .collect();
    // the match sequences the model splices over come from the reference matcher, not from the subject
    let refs: Vec<(Vec<Option<String>>, Vec<subject::SMatch>)> = menu.iter().map(|(p, f, h)| reference_matches(p, f, h).unwrap_or_else(|| panic!("menu entry {} {} outside the reference", p, h))).collect();
    let total = templates
        .par_iter()
        .fold(Stats::default, |mut st, tpl| {
            for (mi, (re, p, f, h)) in compiled.iter().enumerate() {
                // a tree on which replace does not return makes every such case burn the whole step horizon;
                // once that verdict is established the rest adds nothing
                if C17_HORIZON_HITS.load(std::sync::atomic::Ordering::Relaxed) > 64 {
                    st.add("skipped_after_violation_budget", 1);
                    continue;
                }
                st.add("evaluations", 1);
                let text: &str = h;
                let (names, matches) = &refs[mi];
                if tpl.contains('$') && !matches.is_empty() {
                    st.add("nontrivial", 1);
                }
                // model
                let mut model_all = String::new();
                let mut model_first: Option<String> = None;
                let mut last = 0usize;
                let mut decided = true;
                for (k, m) in matches.iter().enumerate() {
                    let caps: Vec<Rng> = m.caps.clone();
                    let Some(exp) = expand_model(tpl, text, (m.start, m.end), &caps, &named_model(names, &caps)) else {
                        decided = false;
                        break;
                    };
                    model_all.push_str(&text[last..m.start]);
                    model_all.push_str(&exp);
                    last = m.end;
                    if k == 0 {
                        model_first = Some(format!("{}{}{}", &text[..m.start], exp, &text[m.end..]));
                    }
                }
                if !decided {
                    st.add("outside_model_overflow_cap", 1);
                    continue;
                }
                model_all.push_str(&text[last..]);
                let model_first = model_first.unwrap_or_else(|| text.to_string());
                let got = subject::guarded(200_000, || (re.replace(text, tpl), re.replace_all(text, tpl)));
                st.add("validated", 1);
                let mut report = |what: &str, e: &str, g: &str, st: &mut Stats| {
                    let case = J::obj()
                        .set("kind", J::s("replace"))
                        .set("pattern", J::s(p))
                        .set("flags", J::s(f))
                        .set("haystack", J::s(h))
                        .set("template", J::s(tpl))
                        .set("what", J::s(what))
                        .set("expected", J::s(e))
                        .set("got", J::s(g));
                    let tshape: String = tpl.chars().map(|c| if c.is_ascii_digit() { 'd' } else if c.is_alphabetic() { 'x' } else { c }).collect();
                    st.violation(&known, "C17", &format!("{} template~{} /{}/", what, tshape, p), tpl.len() * 4 + h.len(), case);
                };
                match got {
                    Outcome::Ok((r1, rall)) => {
                        if r1 != model_first {
                            report("replace differs from the model", &model_first, &r1, &mut st);
                        }
                        if rall != model_all {
                            report("replace_all differs from the model", &model_all, &rall, &mut st);
                        } else if tpl.contains('$') && !matches.is_empty() {
                            st.sample(|| J::obj().set("pattern", J::s(p)).set("haystack", J::s(h)).set("template", J::s(tpl)).set("replace_all", J::s(&rall)));
                        }
                    }
                    Outcome::Panic(m) => report("panic in replace", "", &m, &mut st),
                    Outcome::Fuel => {
                        C17_HORIZON_HITS.fetch_add(1, std::sync::atomic::Ordering::Relaxed);
                        report("replace / replace_all does not return within the step horizon", &model_all, "(200,000 matcher steps used)", &mut st)
                    }
                }
            }
            st
        })
        .reduce(Stats::default, Stats::merge);
    // closure variants: identity and constant closures, once per menu entry
    let mut st2 = Stats::default();
    for (mi, (re, p, f, h)) in compiled.iter().enumerate() {
        let text: &str = h;
        st2.add("evaluations", 1);
        st2.add("validated", 1);
        let (names, matches) = &refs[mi];
        let show = |m: &regress::Match| -> String {
            // the closure sees the match: render everything it can read (range, every group, every name)
            let gs: Vec<String> = m.groups().map(|g| g.map(|r| format!("{}..{}", r.start, r.end)).unwrap_or_else(|| "-".into())).collect();
            let ns: Vec<String> = m.named_groups().map(|(n, g)| format!("{}={}", n, g.map(|r| format!("{}..{}", r.start, r.end)).unwrap_or_else(|| "-".into()))).collect();
            format!("<{}|{}>", gs.join(","), ns.join(","))
        };
        let show_model = |m: &subject::SMatch| -> String {
            let mut gs: Vec<String> = vec![format!("{}..{}", m.start, m.end)];
            gs.extend(m.caps.iter().map(|g| g.map(|(a, b)| format!("{}..{}", a, b)).unwrap_or_else(|| "-".into())));
            let ns: Vec<String> = named_model(names, &m.caps).iter().map(|(n, g)| format!("{}={}", n, g.map(|(a, b)| format!("{}..{}", a, b)).unwrap_or_else(|| "-".into()))).collect();
            format!("<{}|{}>", gs.join(","), ns.join(","))
        };
        let guarded = subject::guarded(2_000_000, || {
            (
                re.replace_all_with(text, |m| m.as_str(text).to_string()),
                re.replace_with(text, |m| m.as_str(text).to_string()),
                re.replace_all_with(text, |_| "<$1>".to_string()),
                re.replace_with(text, |_| "<$1>".to_string()),
                re.replace_all_with(text, |m| show(m)),
            )
        });
        let (id_all, id_one, k_all, k_one, seen_all) = match guarded {
            Outcome::Ok(x) => x,
            other => {
                let case = J::obj().set("kind", J::s("replace_with")).set("pattern", J::s(p)).set("flags", J::s(f)).set("haystack", J::s(h)).set("what", J::s("closure variants do not return / panic")).set("got", J::s(&format!("{:?}", other)));
                st2.violation(&known, "C17", &format!("closure variants do not return /{}/", p), h.len(), case);
                continue;
            }
        };
        let mut konst = String::new();
        let mut seen_model = String::new();
        let mut last = 0;
        for m in matches {
            konst.push_str(&text[last..m.start]);
            konst.push_str("<$1>");
            seen_model.push_str(&text[last..m.start]);
            seen_model.push_str(&show_model(m));
            last = m.end;
        }
        konst.push_str(&text[last..]);
        seen_model.push_str(&text[last..]);
        let k_one_model = match matches.first() {
            Some(m) => format!("{}<$1>{}", &text[..m.start], &text[m.end..]),
            None => text.to_string(),
        };
        let mut rep = |what: &str, e: &str, g: &str| {
            let case = J::obj().set("kind", J::s("replace_with")).set("pattern", J::s(p)).set("flags", J::s(f)).set("haystack", J::s(h)).set("what", J::s(what)).set("expected", J::s(e)).set("got", J::s(g));
            st2.violation(&known, "C17", &format!("{} /{}/", what, p), h.len(), case);
        };
        if id_all != text {
            rep("replace_all_with(identity) is not the identity", text, &id_all);
        }
        if id_one != text {
            rep("replace_with(identity) is not the identity", text, &id_one);
        }
        if k_all != konst {
            rep("replace_all_with(constant) differs from the splice model", &konst, &k_all);
        }
        if k_one != k_one_model {
            rep("replace_with(constant) differs from the splice model", &k_one_model, &k_one);
        }
        if seen_all != seen_model {
            rep("the Match handed to the replace_all_with closure differs from the reference match (range, groups, names)", &seen_model, &seen_all);
        }
    }
    run.extra.push(("templates".into(), J::u(templates.len() as u64)));
    run.extra.push(("menu_entries".into(), J::u(menu.len() as u64)));
    total.merge(st2)
}

// ---------------------------------------------------------------- C18

fn occurrences(s: &[u32], t: &[u32], eq: &dyn Fn(u32, u32) -> bool) -> Vec<(usize, usize)> {
    // leftmost, non-overlapping; the empty string at every position, advancing one character
    let mut out = Vec::new();
    let mut i = 0;
    while i + s.len() <= t.len() {
        if (0..s.len()).all(|k| eq(s[k], t[i + k])) {
            out.push((i, i + s.len()));
            i += if s.is_empty() { 1 } else { s.len() };
        } else {
            i += 1;
        }
    }
    out
}

pub fn c18(run: &mut Run) -> Stats {
    let thorough = run.thorough();
    let slen = if thorough { 4 } else { 3 };
    let alphabet: Vec<char> = "\\^$.|?*+()[]{}-/&,aAkſ1é😀\n Σθ".chars().collect();
    run.rule = format!(
        "all strings s over {{14 syntax characters, - / & , a A k U+017F 1 é U+1F600 LF space U+03A3 U+03B8}} of length <= {} x all 24 flag sets ({{i,m,s}} x {{none,u,v}}) x haystacks built from s (s, s.s, x.s.x, every proper prefix, case-swapped s, empty, s with the last character dropped and doubled, s with each character replaced by NUL or x, s with each character replaced by every member of its case class); plus 55 long strings (caseless runs of 8..=40 characters alone, before / after one cased letter) with every single-position near miss; non-trivial = s is non-empty and occurs in the haystack",
        slen
    );
    run.assumptions = vec!["occurrence model: leftmost non-overlapping substring search on code points; under i, per-character equivalence from the oracle fold tables (C10's relation)".into()];
    let mut strings: Vec<Vec<char>> = vec![vec![]];
    let mut prev: Vec<Vec<char>> = vec![vec![]];
    for _ in 0..slen {
        let mut next = Vec::new();
        for p in &prev {
            for &a in &alphabet {
                let mut q = p.clone();
                q.push(a);
                next.push(q);
            }
        }
        strings.extend(next.iter().cloned());
        prev = next;
    }
    let mut flagsets: Vec<Flags> = Vec::new();
    for mode in ["", "u", "v"] {
        for bits in 0..8 {
            let mut s = String::from(mode);
            if bits & 1 != 0 {
                s.push('i')
            }
            if bits & 2 != 0 {
                s.push('m')
            }
            if bits & 4 != 0 {
                s.push('s')
            }
            flagsets.push(Flags::parse(&s));
        }
    }
    // long strings (chunked literals, prefilters): caseless runs of 8..=40 characters, alone, after and before one
    // cased letter; their haystacks are s, s with the cased letter in the other case, and s with every single
    // position replaced
    {
        let run_of = |n: usize| -> String { (0..n).map(|i| "0123456789-:;= ".chars().nth(i % 15).unwrap()).collect() };
        for n in [8usize, 9, 12, 15, 16, 17, 24, 31, 32, 33, 40] {
            let r = run_of(n);
            for s in [r.clone(), format!("{}x", r), format!("k{}", r), format!("id={};", r), format!("{}é", r)] {
                strings.push(s.chars().collect());
            }
        }
    }
    let known = run.known.clone();
    let swap = |c: char| -> char {
        if c.is_lowercase() {
            c.to_uppercase().next().unwrap()
        } else {
            c.to_lowercase().next().unwrap()
        }
    };
    let total = strings
        .par_iter()
        .fold(Stats::default, |mut st, sc| {
            let s: String = sc.iter().collect();
            let scp: Vec<u32> = sc.iter().map(|&c| c as u32).collect();
            let esc = regress::escape(&s);
            // escape only inserts backslashes
            let stripped: String = {
                let mut out = String::new();
                let ec: Vec<char> = esc.chars().collect();
                let mut i = 0;
                let mut k = 0;
                let mut ok = true;
                while i < ec.len() {
                    if ec[i] == '\\' && i + 1 < ec.len() && k < sc.len() && ec[i + 1] == sc[k] {
                        out.push(ec[i + 1]);
                        i += 2;
                        k += 1;
                    } else if k < sc.len() && ec[i] == sc[k] {
                        out.push(ec[i]);
                        i += 1;
                        k += 1;
                    } else {
                        ok = false;
                        break;
                    }
                }
                if ok && k == sc.len() {
                    out
                } else {
                    String::from("\u{0}MISMATCH")
                }
            };
            if stripped != s {
                let case = J::obj().set("kind", J::s("escape")).set("s", J::s(&s)).set("escaped", J::s(&esc)).set("what", J::s("escape changes characters other than by prefixing a backslash"));
                st.violation(&known, "C18", "escape output is not s with backslashes inserted", s.len(), case);
            }
            // haystacks
            let mut hays: Vec<String> = vec![s.clone(), format!("{}{}", s, s), format!("x{}x", s), String::new(), sc.iter().map(|&c| swap(c)).collect()];
            for k in 1..sc.len() {
                hays.push(sc[..k].iter().collect());
            }
            if !sc.is_empty() {
                let mut d: Vec<char> = sc.clone();
                let l = *d.last().unwrap();
                d.pop();
                hays.push(d.iter().collect::<String>() + &s);
                hays.push(format!("{}{}", s, l));
            }
            // near misses: s with one character replaced by NUL or by 'x' (long strings: also by '9' and 'y'),
            // alone and embedded
            for k in 0..sc.len() {
                let reps: &[char] = if sc.len() > 6 { &['\0', 'x', '9', 'y'] } else { &['\0', 'x'] };
                for &r in reps {
                    let mut d = sc.clone();
                    d[k] = r;
                    let ds: String = d.iter().collect();
                    hays.push(format!("{}{}", ds, s));
                    hays.push(ds);
                }
            }
            // case variants: s with one character replaced by each member of its case class (either mode)
            for k in 0..sc.len() {
                let mut partners = fold::class_of(sc[k] as u32, true);
                partners.extend(fold::class_of(sc[k] as u32, false));
                partners.sort();
                partners.dedup();
                for p in partners {
                    if p == sc[k] as u32 {
                        continue;
                    }
                    let mut d = sc.clone();
                    d[k] = char::from_u32(p).unwrap();
                    let ds: String = d.iter().collect();
                    hays.push(format!("x{}", ds));
                    hays.push(ds);
                }
            }
            hays.sort();
            hays.dedup();
            for &fl in &flagsets {
                let re = match subject::compile(&esc.chars().map(|c| c as u32).collect::<Vec<u32>>(), fl, false) {
                    CompileOutcome::Ok(r) => r,
                    other => {
                        let case = J::obj().set("kind", J::s("escape")).set("s", J::s(&s)).set("escaped", J::s(&esc)).set("flags", J::s(&fl.to_string())).set("what", J::s("escape(s) does not compile")).set("got", J::s(&format!("{:?}", other)));
                        let sh: String = sc.iter().map(|c| if c.is_alphanumeric() { 'x' } else { *c }).collect();
                        st.violation(&known, "C18", &format!("escape(s) does not compile: s~{} flags {}", sh, fl.to_string()), s.len(), case);
                        continue;
                    }
                };
                let um = fl.unicode_mode();
                for h in &hays {
                    st.add("evaluations", 1);
                    let hay = Hay::new(h.chars().map(|c| c as u32).collect());
                    let exp: Vec<(usize, usize)> = if fl.i {
                        occurrences(&scp, &hay.cps, &|a, b| fold::same(a, b, um))
                    } else {
                        occurrences(&scp, &hay.cps, &|a, b| a == b)
                    };
                    let exp_b: Vec<(usize, usize)> = exp.iter().map(|&(a, b)| (hay.offs[a], hay.offs[b])).collect();
                    if !s.is_empty() && !exp.is_empty() {
                        st.add("nontrivial", 1);
                    }
                    let got = subject::api_find_n(&re, &hay.text, 0, 64, 1_000_000);
                    st.add("validated", 1);
                    match got {
                        Outcome::Ok(v) => {
                            let g: Vec<(usize, usize)> = v.iter().map(|m| (m.start, m.end)).collect();
                            if g != exp_b {
                                let sh: String = sc.iter().map(|c| if c.is_alphanumeric() { 'x' } else { *c }).collect();
                                let case = J::obj()
                                    .set("kind", J::s("escape"))
                                    .set("s", J::s(&s))
                                    .set("escaped", J::s(&esc))
                                    .set("flags", J::s(&fl.to_string()))
                                    .set("haystack", J::s(h))
                                    .set("what", J::s("matches of escape(s) differ from the occurrences of s"))
                                    .set("expected", J::Arr(exp_b.iter().map(|r| rj(&Some(*r))).collect()))
                                    .set("got", J::Arr(g.iter().map(|r| rj(&Some(*r))).collect()));
                                st.violation(&known, "C18", &format!("matches differ: s~{} flags {}", sh, fl.to_string()), s.len() * 4 + h.len(), case);
                            } else if !s.is_empty() && !exp.is_empty() {
                                st.sample(|| J::obj().set("s", J::s(&s)).set("escaped", J::s(&esc)).set("flags", J::s(&fl.to_string())).set("haystack", J::s(h)).set("matches", J::Arr(g.iter().map(|r| rj(&Some(*r))).collect())));
                            }
                        }
                        Outcome::Fuel => st.add("undecided_fuel", 1),
                        Outcome::Panic(m) => {
                            let case = J::obj().set("kind", J::s("escape")).set("s", J::s(&s)).set("flags", J::s(&fl.to_string())).set("haystack", J::s(h)).set("what", J::s("panic")).set("got", J::s(&m));
                            st.violation(&known, "C18", "panic while searching with escape(s)", s.len(), case);
                        }
                    }
                }
            }
            st
        })
        .reduce(Stats::default, Stats::merge);
    run.extra.push(("strings".into(), J::u(strings.len() as u64)));
    run.extra.push(("flag_sets".into(), J::u(flagsets.len() as u64)));
    total
}
