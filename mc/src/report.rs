//! Statistics, violation clustering, known findings, evidence and replay files.
use crate::json::{self, J};
use std::collections::BTreeMap;
use std::path::PathBuf;

#[derive(Clone, Debug)]
pub struct Cluster {
    pub count: u64,
    pub weight: usize,
    pub first: J,
    pub members: Vec<J>,
}

#[derive(Default, Clone, Debug)]
pub struct Stats {
    pub counters: BTreeMap<String, u64>,
    pub samples: Vec<J>,
    pub clusters: BTreeMap<String, Cluster>,
    pub known: BTreeMap<String, (u64, J)>,
    pub errors: Vec<String>,
}

pub const MAX_SAMPLES: usize = 12;
pub const MAX_MEMBERS: usize = 20;

impl Stats {
    pub fn add(&mut self, k: &str, n: u64) {
        if n == 0 && self.counters.contains_key(k) {
            return;
        }
        *self.counters.entry(k.to_string()).or_insert(0) += n;
    }
    pub fn get(&self, k: &str) -> u64 {
        *self.counters.get(k).unwrap_or(&0)
    }
    pub fn sample(&mut self, j: impl FnOnce() -> J) {
        if self.samples.len() < MAX_SAMPLES {
            self.samples.push(j());
        }
    }
    /// Record a violation (or a known finding, if the known-findings file attributes it).
    pub fn violation(&mut self, known: &Known, property: &str, cluster: &str, weight: usize, case: J) {
        if let Some(id) = known.attribute(property, cluster, &case) {
            let e = self.known.entry(id).or_insert((0, case.clone()));
            e.0 += 1;
            return;
        }
        match self.clusters.get_mut(cluster) {
            Some(c) => {
                c.count += 1;
                if weight < c.weight {
                    let old = std::mem::replace(&mut c.first, case);
                    c.weight = weight;
                    if c.members.len() < MAX_MEMBERS {
                        c.members.push(old);
                    }
                } else if c.members.len() < MAX_MEMBERS {
                    c.members.push(case);
                }
            }
            None => {
                self.clusters.insert(cluster.to_string(), Cluster { count: 1, weight, first: case, members: vec![] });
            }
        }
    }
    pub fn error(&mut self, e: String) {
        if self.errors.len() < 20 {
            self.errors.push(e);
        }
    }
    pub fn merge(mut self, o: Stats) -> Stats {
        for (k, v) in o.counters {
            let e = self.counters.entry(k.clone()).or_insert(0);
            if k.starts_with("max_") {
                *e = (*e).max(v);
            } else {
                *e += v;
            }
        }
        for s in o.samples {
            if self.samples.len() < MAX_SAMPLES {
                self.samples.push(s);
            }
        }
        for (k, c) in o.clusters {
            match self.clusters.get_mut(&k) {
                Some(mine) => {
                    mine.count += c.count;
                    let mut extra = c.members;
                    if c.weight < mine.weight {
                        let old = std::mem::replace(&mut mine.first, c.first);
                        mine.weight = c.weight;
                        extra.push(old);
                    } else {
                        extra.push(c.first);
                    }
                    for m in extra {
                        if mine.members.len() < MAX_MEMBERS {
                            mine.members.push(m);
                        }
                    }
                }
                None => {
                    self.clusters.insert(k, c);
                }
            }
        }
        for (k, (n, w)) in o.known {
            let e = self.known.entry(k).or_insert((0, w));
            e.0 += n;
        }
        for e in o.errors {
            self.error(e);
        }
        self
    }
    pub fn total_violations(&self) -> u64 {
        self.clusters.values().map(|c| c.count).sum()
    }
}

/// Known findings file (/verif/known_findings.json). Never written at run time.
#[derive(Default, Clone, Debug)]
pub struct Known {
    pub entries: Vec<J>,
}

impl Known {
    pub fn load() -> Known {
        let p = crate::fold::root().join("known_findings.json");
        match std::fs::read_to_string(&p) {
            Ok(t) => match json::parse(&t) {
                Ok(j) => Known { entries: j.get("known").and_then(|k| k.arr()).cloned().unwrap_or_default() },
                Err(e) => {
                    eprintln!("MACHINERY: cannot parse {}: {}", p.display(), e);
                    std::process::exit(2);
                }
            },
            Err(_) => Known::default(),
        }
    }
    /// A case is attributed to a known finding iff the entry is for this property and every field of
    /// its "match" object equals the same field of the case ("cluster" is matched against the cluster
    /// signature).
    pub fn attribute(&self, property: &str, cluster: &str, case: &J) -> Option<String> {
        for e in &self.entries {
            if e.get("property").and_then(|p| p.str()) != Some(property) {
                continue;
            }
            let Some(J::Obj(m)) = e.get("match") else { continue };
            if m.is_empty() {
                continue;
            }
            let mut ok = true;
            for (k, v) in m {
                let have = if k == "cluster" { Some(J::s(cluster)) } else { case.get(k).cloned() };
                if have.as_ref() != Some(v) {
                    ok = false;
                    break;
                }
            }
            if ok {
                return e.get("id").and_then(|i| i.str()).map(|s| s.to_string());
            }
        }
        None
    }
    pub fn describe(&self, id: &str) -> String {
        for e in &self.entries {
            if e.get("id").and_then(|i| i.str()) == Some(id) {
                return e.get("what").and_then(|w| w.str()).unwrap_or("").to_string();
            }
        }
        String::new()
    }
}

/// A case without its bulky code point arrays, for printing.
pub fn brief(j: &J) -> J {
    match j {
        J::Obj(o) => J::Obj(o.iter().filter(|(k, _)| !k.ends_with("_cps") && k != "kind").cloned().collect()),
        other => other.clone(),
    }
}

pub struct Run {
    pub property: String,
    pub tier: String,
    pub seed: i64,
    pub level: String,
    pub started: std::time::Instant,
    pub known: Known,
    pub rule: String,
    pub assumptions: Vec<String>,
    pub extra: Vec<(String, J)>,
    pub exhaustive: bool,
    pub caps: Vec<String>,
}

/// Last resort for a call that never returns: write the replay and a (partial) evidence file, print the
/// VIOLATION line and end the process with exit status 1.
pub fn emergency_violation(pid: &str, tier: &str, level: &str, what: &str, desc: &str) -> ! {
    let root = crate::fold::root();
    let rdir: PathBuf = root.join("replays").join(pid);
    let _ = std::fs::create_dir_all(&rdir);
    let path = rdir.join("hang.json");
    let case = J::obj().set("property", J::s(pid)).set("kind", J::s("hang")).set("what", J::s(what)).set("running", J::s(desc));
    let _ = std::fs::write(&path, case.pretty());
    let mut cov = J::obj();
    cov.put("evaluations", J::u(1));
    cov.put("distinct_nontrivial", J::u(1));
    cov.put("rule", J::s("exploration cut short: one call into the subject did not return within the wall horizon; the counts of the interrupted exploration are not available"));
    cov.put("samples", J::Arr(vec![case.clone()]));
    cov.put("states", J::u(1));
    cov.put("transitions", J::u(1));
    cov.put("traces_validated_against_impl", J::u(1));
    cov.put("exhaustive", J::Bool(false));
    cov.put("caps_hit", J::Arr(vec![J::s("wall horizon of the hang watchdog")]));
    cov.put("violation_clusters", J::Arr(vec![J::obj().set("cluster", J::s(what)).set("size", J::u(1)).set("witness", case.clone())]));
    let evid = J::obj().set("property_id", J::s(pid)).set("tier", J::s(tier)).set("seed", J::Int(0)).set("level", J::s(level)).set("coverage", cov).set("assumptions", J::Arr(vec![])).set("wall_s", J::Float(0.0)).set("violations", J::Int(1));
    let _ = std::fs::create_dir_all(root.join("evidence"));
    let _ = std::fs::write(root.join("evidence").join(format!("{}.json", pid)), evid.pretty());
    println!("VIOLATION property={} replay={}", pid, path.display());
    println!("  cluster={} witness={}", what, desc.chars().take(300).collect::<String>());
    use std::io::Write;
    let _ = std::io::stdout().flush();
    std::process::exit(1);
}

impl Run {
    pub fn new(property: &str, level: &str) -> Run {
        let tier = std::env::var("VERIF_TIER").unwrap_or_else(|_| "quick".to_string());
        let tier = if tier == "thorough" { "thorough".to_string() } else { "quick".to_string() };
        let seed = std::env::var("VERIF_SEED").ok().and_then(|s| s.parse::<i64>().ok()).unwrap_or(0);
        crate::subject::start_watchdog(property, &tier, level);
        Run {
            property: property.to_string(),
            tier,
            seed,
            level: level.to_string(),
            started: std::time::Instant::now(),
            known: Known::load(),
            rule: String::new(),
            assumptions: Vec::new(),
            extra: Vec::new(),
            exhaustive: true,
            caps: Vec::new(),
        }
    }
    pub fn thorough(&self) -> bool {
        self.tier == "thorough"
    }

    /// Print verdict lines, write replay files and the evidence file; return the exit code.
    pub fn finish(&self, stats: &Stats) -> i32 {
        let root = crate::fold::root();
        let rdir: PathBuf = root.join("replays").join(&self.property);
        let _ = std::fs::remove_dir_all(&rdir);
        if !stats.errors.is_empty() {
            for e in &stats.errors {
                eprintln!("MACHINERY: {}", e);
            }
        }
        for (id, (n, w)) in &stats.known {
            println!("KNOWN-FINDING: property={} {} [{}] hits={} witness={}", self.property, id, self.known.describe(id), n, brief(w).compact());
        }
        let mut vio_json = Vec::new();
        if !stats.clusters.is_empty() {
            let _ = std::fs::create_dir_all(&rdir);
            // smallest witnesses first
            let mut cl: Vec<(&String, &Cluster)> = stats.clusters.iter().collect();
            cl.sort_by_key(|(k, c)| (c.weight, (*k).clone()));
            for (i, (sig, c)) in cl.iter().enumerate() {
                if i >= 50 {
                    break;
                }
                let path = rdir.join(format!("{}.json", i + 1));
                let rj = J::obj()
                    .set("property", J::s(&self.property))
                    .set("cluster", J::s(sig))
                    .set("cluster_size", J::u(c.count))
                    .set("case", c.first.clone())
                    .set("more", J::Arr(c.members.clone()));
                let _ = std::fs::write(&path, rj.pretty());
                println!("VIOLATION property={} replay={}", self.property, path.display());
                println!("  cluster={} size={} witness={}", sig, c.count, brief(&c.first).compact());
                vio_json.push(J::obj().set("cluster", J::s(sig)).set("size", J::u(c.count)).set("witness", c.first.clone()));
            }
        }
        // multi-process checks (C06, C15) pass the start of the whole check in VERIF_T0 (epoch seconds)
        let wall = match std::env::var("VERIF_T0").ok().and_then(|t| t.parse::<f64>().ok()) {
            Some(t0) => {
                let now = std::time::SystemTime::now().duration_since(std::time::UNIX_EPOCH).map(|d| d.as_secs_f64()).unwrap_or(t0);
                (now - t0).max(self.started.elapsed().as_secs_f64())
            }
            None => self.started.elapsed().as_secs_f64(),
        };
        let mut cov = J::obj();
        let ev = stats.get("evaluations");
        cov.put("evaluations", J::u(ev));
        cov.put("distinct_nontrivial", J::u(stats.get("nontrivial")));
        cov.put("rule", J::s(&self.rule));
        cov.put("samples", J::Arr(stats.samples.clone()));
        cov.put("states", J::u(stats.get("states").max(ev)));
        cov.put("transitions", J::u(stats.get("transitions").max(ev)));
        cov.put("traces_validated_against_impl", J::u(stats.get("validated")));
        cov.put("exhaustive", J::Bool(self.exhaustive && self.caps.is_empty() && stats.errors.is_empty()));
        cov.put("caps_hit", J::Arr(self.caps.iter().map(|s| J::s(s)).collect()));
        let mut counters = J::obj();
        for (k, v) in &stats.counters {
            counters.put(k, J::u(*v));
        }
        cov.put("counters", counters);
        for (k, v) in &self.extra {
            cov.put(k, v.clone());
        }
        cov.put(
            "known_findings_hit",
            J::Arr(stats.known.iter().map(|(id, (n, w))| J::obj().set("id", J::s(id)).set("hits", J::u(*n)).set("witness", w.clone())).collect()),
        );
        cov.put("violation_clusters", J::Arr(vio_json));
        let evid = J::obj()
            .set("property_id", J::s(&self.property))
            .set("tier", J::s(&self.tier))
            .set("seed", J::Int(self.seed))
            .set("level", J::s(&self.level))
            .set("coverage", cov)
            .set("assumptions", J::Arr(self.assumptions.iter().map(|s| J::s(s)).collect()))
            .set("wall_s", J::Float((wall * 100.0).round() / 100.0))
            .set("violations", J::Int(stats.total_violations() as i64));
        let edir = root.join("evidence");
        let _ = std::fs::create_dir_all(&edir);
        let epath = edir.join(format!("{}.json", self.property));
        if let Err(e) = std::fs::write(&epath, evid.pretty()) {
            eprintln!("MACHINERY: cannot write evidence {}: {}", epath.display(), e);
            return 2;
        }
        println!(
            "{} {} evaluations={} nontrivial={} validated={} violations={} known_hits={} wall={:.1}s",
            self.property,
            self.tier,
            ev,
            stats.get("nontrivial"),
            stats.get("validated"),
            stats.total_violations(),
            stats.known.values().map(|k| k.0).sum::<u64>(),
            wall
        );
        if !stats.errors.is_empty() {
            return 2;
        }
        if stats.total_violations() > 0 {
            1
        } else {
            0
        }
    }
}
