//! Oracle case-folding relation (Unicode 17, generated from ICU; see tools/gen_fold_oracle.js and
//! tools xcheck). Only the *partition* matters: Canonicalize(a) == Canonicalize(b) iff a and b are in
//! the same class.
use std::collections::HashMap;
use std::sync::OnceLock;

pub struct FoldTables {
    /// simple case folding: code point -> class members (sorted), only for non-trivial classes
    pub scf: HashMap<u32, Vec<u32>>,
    /// legacy canonicalize: code point -> class members (sorted), only for non-trivial classes
    pub upper: HashMap<u32, Vec<u32>>,
    /// legacy canonicalize as a map c -> Canonicalize(c) (identity omitted)
    pub upper_map: HashMap<u32, u32>,
}

static TABLES: OnceLock<FoldTables> = OnceLock::new();

pub fn root() -> std::path::PathBuf {
    if let Ok(r) = std::env::var("VERIF_ROOT") {
        return r.into();
    }
    // default: the directory holding MANIFEST.json above the current dir, else /verif
    let mut d = std::env::current_dir().unwrap();
    loop {
        if d.join("properties.jsonl").exists() {
            return d;
        }
        if !d.pop() {
            return "/verif".into();
        }
    }
}

fn load() -> FoldTables {
    let r = root().join("oracle");
    let scf_txt = std::fs::read_to_string(r.join("scf_u17.tsv")).expect("oracle/scf_u17.tsv");
    let mut scf = HashMap::new();
    for line in scf_txt.lines() {
        if line.starts_with('#') || line.trim().is_empty() {
            continue;
        }
        let members: Vec<u32> = line.split_whitespace().map(|h| u32::from_str_radix(h, 16).unwrap()).collect();
        for &m in &members {
            scf.insert(m, members.clone());
        }
    }
    let up_txt = std::fs::read_to_string(r.join("upper_u17.tsv")).expect("oracle/upper_u17.tsv");
    let mut upper_map = HashMap::new();
    for line in up_txt.lines() {
        if line.starts_with('#') || line.trim().is_empty() {
            continue;
        }
        let mut it = line.split_whitespace();
        let a = u32::from_str_radix(it.next().unwrap(), 16).unwrap();
        let b = u32::from_str_radix(it.next().unwrap(), 16).unwrap();
        upper_map.insert(a, b);
    }
    // classes: group by canonical form
    let mut by_canon: HashMap<u32, Vec<u32>> = HashMap::new();
    for (&a, &b) in &upper_map {
        by_canon.entry(b).or_default().push(a);
    }
    let mut upper = HashMap::new();
    for (canon, mut members) in by_canon {
        // the canonical form itself is in its class (Canonicalize is idempotent on these targets;
        // if the target itself maps elsewhere it will be grouped there instead)
        if !upper_map.contains_key(&canon) {
            members.push(canon);
        }
        members.sort_unstable();
        members.dedup();
        if members.len() > 1 {
            for &m in &members {
                upper.insert(m, members.clone());
            }
        }
    }
    FoldTables { scf, upper, upper_map }
}

pub fn tables() -> &'static FoldTables {
    TABLES.get_or_init(load)
}

/// All code points d with Canonicalize(d) == Canonicalize(c) (includes c).
pub fn class_of(c: u32, unicode: bool) -> Vec<u32> {
    let t = tables();
    let m = if unicode { &t.scf } else { &t.upper };
    match m.get(&c) {
        Some(v) => v.clone(),
        None => vec![c],
    }
}

pub fn class_of_into(c: u32, unicode: bool, out: &mut Vec<u32>) {
    let t = tables();
    let m = if unicode { &t.scf } else { &t.upper };
    out.clear();
    match m.get(&c) {
        Some(v) => out.extend_from_slice(v),
        None => out.push(c),
    }
}

/// A canonical representative: the smallest member of the class.
pub fn rep(c: u32, unicode: bool) -> u32 {
    let t = tables();
    let m = if unicode { &t.scf } else { &t.upper };
    match m.get(&c) {
        Some(v) => v[0],
        None => c,
    }
}

pub fn same(a: u32, b: u32, unicode: bool) -> bool {
    a == b || rep(a, unicode) == rep(b, unicode)
}
