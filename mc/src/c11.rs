//! C11: property escapes denote exactly the Unicode 17 sets; names outside the ES tables are rejected.
use crate::ast::Flags;
use crate::json::J;
use crate::props;
use crate::report::{Run, Stats};
use crate::subject::{self, CompileOutcome, Outcome};
use rayon::prelude::*;
use std::collections::BTreeSet;

fn cps(s: &str) -> Vec<u32> {
    s.chars().map(|c| c as u32).collect()
}

fn iv_json(v: &[(u32, u32)], max: usize) -> J {
    J::Arr(v.iter().take(max).map(|(a, b)| J::s(&if a == b { format!("U+{:04X}", a) } else { format!("U+{:04X}-U+{:04X}", a, b) })).collect())
}

/// Names that the subject's own source mentions as string literals in its name tables: they join the
/// candidate list so that a newly added (bogus) alias is judged too. Candidates only - never a verdict.
pub fn names_in_subject_source() -> Vec<String> {
    let mut out = BTreeSet::new();
    for f in ["/repo/src/unicodetables.rs", "/repo/src/unicode.rs"] {
        let Ok(src) = std::fs::read_to_string(f) else { continue };
        for fname in ["fn unicode_property_binary_from_str", "fn unicode_property_value_general_category_from_str", "fn unicode_property_value_script_from_str", "fn unicode_string_property_from_str", "fn unicode_property_name_from_str"] {
            let Some(i) = src.find(fname) else { continue };
            let end = src[i..].find("\n}\n").map(|e| i + e).unwrap_or(src.len());
            let body = &src[i..end];
            let mut it = body.split('"');
            it.next();
            while let (Some(lit), Some(_)) = (it.next(), it.next()) {
                if !lit.is_empty() && lit.chars().all(|c| c.is_ascii_alphanumeric() || c == '_') {
                    out.insert(lit.to_string());
                }
            }
        }
    }
    out.into_iter().collect()
}

fn case(expr: &str, flags: &str, neg: bool, what: &str, expected: J, got: J) -> J {
    J::obj()
        .set("kind", J::s("prop"))
        .set("pattern", J::s(&format!("\\{}{{{}}}", if neg { 'P' } else { 'p' }, expr)))
        .set("expr", J::s(expr))
        .set("flags", J::s(flags))
        .set("what", J::s(what))
        .set("expected", expected)
        .set("got", got)
}

pub fn c11(run: &mut Run) -> Stats {
    let thorough = run.thorough();
    let t = props::tables();
    let known = run.known.clone();
    // ---- 1. acceptance of every candidate expression
    let mut cands: BTreeSet<String> = t.names.keys().cloned().collect();
    for r in &t.rejected {
        cands.insert(r.clone());
    }
    let mut from_source = 0;
    for n in names_in_subject_source() {
        for e in [n.clone(), format!("gc={}", n), format!("General_Category={}", n), format!("sc={}", n), format!("Script={}", n), format!("scx={}", n), format!("Script_Extensions={}", n)] {
            if cands.insert(e) {
                from_source += 1;
            }
        }
    }
    let string_props: BTreeSet<&String> = t.strings.keys().collect();
    let cands: Vec<String> = cands.into_iter().collect();
    let st1 = cands
        .par_iter()
        .fold(Stats::default, |mut st, e| {
            let in_oracle = t.names.contains_key(e);
            let is_strings = string_props.contains(e);
            for fs in ["u", "v"] {
                for neg in [false, true] {
                    let pat = cps(&format!("\\{}{{{}}}", if neg { 'P' } else { 'p' }, e));
                    let expect_ok = in_oracle || (is_strings && fs == "v" && !neg);
                    st.add("evaluations", 1);
                    st.add("validated", 1);
                    if expect_ok {
                        st.add("nontrivial", 1);
                    }
                    match subject::compile(&pat, Flags::parse(fs), false) {
                        CompileOutcome::Ok(_) => {
                            if !expect_ok {
                                st.violation(&known, "C11", &format!("accepts a property expression outside the ES tables ({})", fs), e.len(), case(e, fs, neg, "accepted but not admitted by ECMAScript (V8 rejects it)", J::s("SyntaxError"), J::s("Ok")));
                            }
                        }
                        CompileOutcome::Err(msg) => {
                            if expect_ok {
                                st.violation(&known, "C11", &format!("rejects a property expression ES admits ({})", fs), e.len(), case(e, fs, neg, "rejected but admitted by ECMAScript", J::s("Ok"), J::s(&msg)));
                            }
                        }
                        CompileOutcome::Panic(m) => st.violation(&known, "C11", "panic compiling a property escape", e.len(), case(e, fs, neg, "panic", J::Null, J::s(&m))),
                    }
                }
            }
            st
        })
        .reduce(Stats::default, Stats::merge);
    // ---- 2. membership over every scalar value
    let mut text = String::with_capacity(4_500_000);
    for c in (0..=0x10FFFFu32).filter_map(char::from_u32) {
        text.push(c);
    }
    let text = &text;
    let mut exprs: Vec<&String> = t.names.keys().collect();
    exprs.sort();
    let st2 = exprs
        .par_iter()
        .fold(Stats::default, |mut st, e| {
            let oracle = &t.sets[t.names[*e]];
            // scalar part of the oracle set
            let mut exp: Vec<(u32, u32)> = Vec::new();
            for &(a, b) in oracle {
                if a <= 0xD7FF && b >= 0xE000 {
                    exp.push((a, 0xD7FF));
                    exp.push((0xE000, b));
                } else if b < 0xD800 || a > 0xDFFF {
                    exp.push((a, b));
                } else {
                    // touches the surrogate block
                    if a < 0xD800 {
                        exp.push((a, 0xD7FF));
                    }
                    if b > 0xDFFF {
                        exp.push((0xE000, b));
                    }
                }
            }
            for fs in ["u", "v"] {
                for neg in [false, true] {
                    if !thorough && fs == "v" && neg {
                        continue;
                    }
                    let pat = cps(&format!("\\{}{{{}}}+", if neg { 'P' } else { 'p' }, e));
                    // with the program's start predicate, and (quick tier: for \\p under u) without it: a start
                    // predicate computed from the right set can hide a wrong member of the emitted set
                    for without_pf in [false, true] {
                    if without_pf && !thorough && (fs != "u" || neg) {
                        continue;
                    }
                    let compiled = if without_pf { subject::compile_without_prefilter(&pat, Flags::parse(fs), false) } else { subject::compile(&pat, Flags::parse(fs), false) };
                    let CompileOutcome::Ok(re) = compiled else { continue };
                    st.add("evaluations", 1);
                    st.add("validated", 1);
                    st.add("nontrivial", 1);
                    st.add("states", 0x110000 - 2048);
                    let got = subject::guarded(u64::MAX, || {
                        let mut v: Vec<(u32, u32)> = Vec::new();
                        for m in re.find_iter(text) {
                            let s = &text[m.range()];
                            let first = s.chars().next().unwrap() as u32;
                            let last = s.chars().next_back().unwrap() as u32;
                            if first <= 0xD7FF && last >= 0xE000 {
                                v.push((first, 0xD7FF));
                                v.push((0xE000, last));
                            } else {
                                v.push((first, last));
                            }
                        }
                        v
                    });
                    let expected: Vec<(u32, u32)> = if neg { complement_scalars(&exp) } else { exp.clone() };
                    match got {
                        Outcome::Ok(g) => {
                            if g != expected {
                                let d = sym_diff(&g, &expected);
                                st.violation(
                                    &known,
                                    "C11",
                                    &format!("\\{}{{{}}} denotes a different set{}", if neg { 'P' } else { 'p' }, e, if without_pf { " (program without its start predicate)" } else { "" }),
                                    e.len(),
                                    case(e, fs, neg, "set of matching code points differs from Unicode 17 (symmetric difference shown, first 12 runs)", J::s("(oracle)"), iv_json(&d, 12)).set("differing_code_points", J::u(d.iter().map(|(a, b)| (b - a + 1) as u64).sum())),
                                );
                            } else {
                                st.sample(|| J::obj().set("pattern", J::s(&format!("\\{}{{{}}}", if neg { 'P' } else { 'p' }, e))).set("flags", J::s(fs)).set("runs", J::u(g.len() as u64)).set("first_runs", iv_json(&g, 4)));
                            }
                        }
                        Outcome::Panic(m) => st.violation(&known, "C11", "panic matching a property escape", e.len(), case(e, fs, neg, "panic", J::Null, J::s(&m))),
                        Outcome::Fuel => {}
                    }
                    }
                }
            }
            st
        })
        .reduce(Stats::default, Stats::merge);
    // ---- 2b. a set and its complement in one pattern (each escape keeps its own polarity)
    let st2b = exprs
        .par_iter()
        .fold(Stats::default, |mut st, e| {
            let oracle = &t.sets[t.names[*e]];
            let is_member = |c: u32| oracle.iter().any(|&(a, b)| a <= c && c <= b);
            let scalar = |c: &u32| !(0xD800..=0xDFFF).contains(c);
            let member = oracle.iter().flat_map(|&(a, b)| [a, b]).find(|c| scalar(c));
            let non_member = [0x61u32, 0x41, 0x30, 0x20, 0x3B1, 0x4E00, 0x10FFFF, 0xE000, 0x0].into_iter().find(|&c| !is_member(c)).or_else(|| (0..0x110000u32).filter(scalar).find(|&c| !is_member(c)));
            let (Some(m), Some(n)) = (member, non_member) else { return st };
            let (mc, nc) = (char::from_u32(m).unwrap(), char::from_u32(n).unwrap());
            for fs in ["u", "v"] {
                for (tpl, want) in [("^\\p{E}\\P{E}$", "mn"), ("^\\P{E}\\p{E}$", "nm"), ("^[^\\p{E}]\\p{E}$", "nm"), ("^\\p{E}[^\\p{E}]\\p{E}$", "mnm"), ("(?<=\\P{E})\\p{E}", "nm")] {
                    let pat_s = tpl.replace("E", e);
                    let CompileOutcome::Ok(re) = subject::compile(&cps(&pat_s), Flags::parse(fs), false) else { continue };
                    for hay_shape in ["mn", "nm", "mm", "nn", "mnm", "nmn"] {
                        let text: String = hay_shape.chars().map(|c| if c == 'm' { mc } else { nc }).collect();
                        let exp = if tpl.starts_with('^') { hay_shape == want } else { hay_shape.contains(want) };
                        st.add("evaluations", 1);
                        st.add("validated", 1);
                        if exp {
                            st.add("nontrivial", 1);
                        }
                        let got = subject::guarded(10_000_000, || re.find(&text).is_some());
                        if got != Outcome::Ok(exp) {
                            st.violation(&known, "C11", &format!("\\p and \\P of one set in one pattern: {}", tpl), e.len(), case(e, fs, false, &format!("/{}/{} on {:?} (m = U+{:04X} member, n = U+{:04X} non-member, shape {})", pat_s, fs, text, m, n, hay_shape), J::Bool(exp), J::s(&format!("{:?}", got))));
                        }
                    }
                }
            }
            st
        })
        .reduce(Stats::default, Stats::merge);
    // ---- 2c. two properties in one class: union (u, v), intersection and subtraction (v) equal the set algebra
    // of the oracle sets, over every scalar value (large interval lists merged, intersected, subtracted)
    let big: Vec<&str> = vec!["L", "Lu", "Ll", "Alphabetic", "Script=Latin", "sc=Greek", "scx=Latin", "Nd", "N", "P", "M", "Lowercase", "ASCII", "Emoji", "Cased", "ID_Continue"];
    let big: Vec<&str> = big.into_iter().filter(|e| t.names.contains_key(*e)).collect();
    let scalar_set = |e: &str| -> Vec<(u32, u32)> {
        let mut exp: Vec<(u32, u32)> = Vec::new();
        for &(a, b) in &t.sets[t.names[e]] {
            if a <= 0xD7FF && b >= 0xE000 {
                exp.push((a, 0xD7FF));
                exp.push((0xE000, b));
            } else if b < 0xD800 || a > 0xDFFF {
                exp.push((a, b));
            } else {
                if a < 0xD800 {
                    exp.push((a, 0xD7FF));
                }
                if b > 0xDFFF {
                    exp.push((0xE000, b));
                }
            }
        }
        exp
    };
    let member = |v: &[(u32, u32)], c: u32| -> bool { v.binary_search_by(|&(a, b)| if c < a { std::cmp::Ordering::Greater } else if c > b { std::cmp::Ordering::Less } else { std::cmp::Ordering::Equal }).is_ok() };
    let pairs: Vec<(&str, &str)> = big.iter().flat_map(|a| big.iter().map(move |b| (*a, *b))).filter(|(a, b)| a != b).collect();
    let pairs: Vec<(&str, &str)> = if thorough { pairs } else { pairs.into_iter().step_by(3).collect() };
    let st2c = pairs
        .par_iter()
        .fold(Stats::default, |mut st, (a, b)| {
            let (sa, sb) = (scalar_set(a), scalar_set(b));
            for (tpl, fs, op) in [("[\\p{A}\\p{B}]+", "u", 0), ("[\\p{A}\\p{B}]+", "v", 0), ("[\\p{A}&&\\p{B}]+", "v", 1), ("[\\p{A}--\\p{B}]+", "v", 2), ("[^\\p{A}\\p{B}]+", "u", 3)] {
                let pat_s = tpl.replace('A', "\u{1}").replace('B', b).replace("\u{1}", a);
                let CompileOutcome::Ok(re) = subject::compile(&cps(&pat_s), Flags::parse(fs), false) else {
                    st.violation(&known, "C11", "a class of two properties does not compile", a.len() + b.len(), case(&pat_s, fs, false, "does not compile", J::s("Ok"), J::Null));
                    continue;
                };
                st.add("evaluations", 1);
                st.add("validated", 1);
                st.add("nontrivial", 1);
                let got = subject::guarded(u64::MAX, || {
                    let mut v: Vec<(u32, u32)> = Vec::new();
                    for m in re.find_iter(text) {
                        let s = &text[m.range()];
                        let first = s.chars().next().unwrap() as u32;
                        let last = s.chars().next_back().unwrap() as u32;
                        if first <= 0xD7FF && last >= 0xE000 {
                            v.push((first, 0xD7FF));
                            v.push((0xE000, last));
                        } else {
                            v.push((first, last));
                        }
                    }
                    v
                });
                let Outcome::Ok(g) = got else {
                    st.violation(&known, "C11", "panic matching a class of two properties", a.len() + b.len(), case(&pat_s, fs, false, "panic", J::Null, J::s(&format!("{:?}", got))));
                    continue;
                };
                // compare on every interval edge of both operands and of the result (and their neighbours)
                let mut probes: Vec<u32> = Vec::new();
                for &(x, y) in sa.iter().chain(sb.iter()).chain(g.iter()) {
                    for c in [x.saturating_sub(1), x, x + 1, y.saturating_sub(1), y, (y + 1).min(0x10FFFF)] {
                        if !(0xD800..=0xDFFF).contains(&c) {
                            probes.push(c);
                        }
                    }
                }
                probes.sort_unstable();
                probes.dedup();
                let mut bad: Vec<u32> = Vec::new();
                for c in probes {
                    let (ia, ib) = (member(&sa, c), member(&sb, c));
                    let exp = match op {
                        0 => ia || ib,
                        1 => ia && ib,
                        2 => ia && !ib,
                        _ => !(ia || ib),
                    };
                    if member(&g, c) != exp {
                        bad.push(c);
                    }
                }
                if !bad.is_empty() {
                    st.violation(&known, "C11", &format!("set algebra of two properties differs: {}", tpl), a.len() + b.len(), case(&pat_s, fs, false, "membership differs from the algebra of the two Unicode 17 sets (first differing code points shown)", J::s("(oracle)"), J::Arr(bad.iter().take(12).map(|c| J::s(&format!("U+{:04X}", c))).collect())).set("differing_probes", J::u(bad.len() as u64)));
                }
            }
            st
        })
        .reduce(Stats::default, Stats::merge);
    // ---- 3. properties of strings over the judged universe
    let mut st3 = Stats::default();
    let mut names: Vec<&String> = t.strings.keys().collect();
    names.sort();
    for name in names {
        let acc: BTreeSet<&Vec<u32>> = t.strings[name].iter().collect();
        let pat = cps(&format!("^\\p{{{}}}$", name));
        let re = match subject::compile(&pat, Flags::parse("v"), false) {
            CompileOutcome::Ok(r) => r,
            _ => continue, // reported by part 1
        };
        // the same property as a bare atom and inside a class, unanchored: on a member string the first
        // match is the whole string (the strings of a set are tried longest first, ES2025 22.2.2.7 / 22.2.2.9)
        let unanchored: Vec<(String, regress::Regex)> = [format!("\\p{{{}}}", name), format!("[\\p{{{}}}]", name), format!("(?<=^\\p{{{}}})$", name)]
            .into_iter()
            .filter_map(|p| match subject::compile(&cps(&p), Flags::parse("v"), false) {
                CompileOutcome::Ok(r) => Some((p, r)),
                _ => None,
            })
            .collect();
        let s = t
            .universe
            .par_iter()
            .fold(Stats::default, |mut st, u| {
                let Some(text): Option<String> = u.iter().map(|&c| char::from_u32(c)).collect() else { return st };
                st.add("evaluations", 1);
                st.add("validated", 1);
                let exp = acc.contains(u);
                if exp {
                    st.add("nontrivial", 1);
                    for (p, re_un) in &unanchored {
                        st.add("evaluations", 1);
                        st.add("validated", 1);
                        let want = if p.starts_with("(?<=") { (text.len(), text.len()) } else { (0, text.len()) };
                        let got = subject::guarded(50_000_000, || re_un.find(&text).map(|m| (m.start(), m.end())));
                        if got != Outcome::Ok(Some(want)) {
                            let seq: Vec<String> = u.iter().map(|c| format!("U+{:04X}", c)).collect();
                            st.violation(
                                &known,
                                "C11",
                                &format!("{} does not match a member string whole (longest first)", p.replace(name.as_str(), "<strings>")),
                                u.len(),
                                case(name, "v", false, &format!("/{}/v on the member string [{}]: first match is not the whole string", p, seq.join(" ")), J::s(&format!("{:?}", want)), J::s(&format!("{:?}", got))).set("string", J::cps(u)),
                            );
                        }
                    }
                }
                let got = subject::guarded(50_000_000, || re.find(&text).is_some());
                if got != Outcome::Ok(exp) {
                    let seq: Vec<String> = u.iter().map(|c| format!("U+{:04X}", c)).collect();
                    st.violation(
                        &known,
                        "C11",
                        &format!("\\p{{{}}} string membership differs", name),
                        u.len(),
                        case(name, "v", false, &format!("membership of the string [{}] differs from Unicode 17", seq.join(" ")), J::Bool(exp), J::s(&format!("{:?}", got))).set("string", J::cps(u)),
                    );
                } else if exp && u.len() > 2 {
                    st.sample(|| J::obj().set("pattern", J::s(&format!("^\\p{{{}}}$", name))).set("flags", J::s("v")).set("string", J::s(&seq_str(u))).set("member", J::Bool(true)));
                }
                st
            })
            .reduce(Stats::default, Stats::merge);
        st3 = st3.merge(s);
    }
    // ---- 3b. properties of strings in set operations with nested unions of string-bearing operands
    let snames: Vec<&String> = {
        let mut v: Vec<&String> = t.strings.keys().collect();
        v.sort();
        v
    };
    let spairs: Vec<(&String, &String)> = snames.iter().flat_map(|a| snames.iter().map(move |b| (*a, *b))).filter(|(a, b)| a != b).collect();
    let st3b = spairs
        .par_iter()
        .fold(Stats::default, |mut st, (sa, sb)| {
            let in_a: BTreeSet<&Vec<u32>> = t.strings[*sa].iter().collect();
            let in_b: BTreeSet<&Vec<u32>> = t.strings[*sb].iter().collect();
            // members of either set (at most 400 of each) are the probes
            let probes: Vec<&Vec<u32>> = t.strings[*sa].iter().take(400).chain(t.strings[*sb].iter().take(400)).collect();
            for (tpl, op) in [("^[\\p{A}&&[\\p{B}\\p{A}]]$", 0), ("^[\\p{A}--[\\p{B}\\p{A}]]$", 1), ("^[[\\p{B}\\p{A}]&&\\p{A}]$", 0), ("^[[\\p{A}\\p{B}]--\\p{B}]$", 2), ("^[\\p{A}&&[\\p{B}\\q{zz|a}\\p{A}]]$", 0)] {
                let pat_s = tpl.replace('A', "\u{1}").replace('B', sb).replace("\u{1}", sa);
                let CompileOutcome::Ok(re) = subject::compile(&cps(&pat_s), Flags::parse("v"), false) else { continue };
                for u in &probes {
                    let Some(text): Option<String> = u.iter().map(|&c| char::from_u32(c)).collect() else { continue };
                    let (ia, ib) = (in_a.contains(*u), in_b.contains(*u));
                    let exp = match op {
                        0 => ia,
                        1 => false,
                        _ => ia && !ib,
                    };
                    st.add("evaluations", 1);
                    st.add("validated", 1);
                    if exp {
                        st.add("nontrivial", 1);
                    }
                    let got = subject::guarded(50_000_000, || re.find(&text).is_some());
                    if got != Outcome::Ok(exp) {
                        let seq: Vec<String> = u.iter().map(|c| format!("U+{:04X}", c)).collect();
                        st.violation(&known, "C11", &format!("set operation over properties of strings differs: {}", tpl), u.len(), case(&pat_s, "v", false, &format!("membership of the string [{}] differs from the algebra of the two string sets", seq.join(" ")), J::Bool(exp), J::s(&format!("{:?}", got))));
                    }
                }
            }
            st
        })
        .reduce(Stats::default, Stats::merge);
    run.rule = format!(
        "acceptance: {} candidate expressions (every expression the oracle lists as accepted or rejected: names, values and aliases of all Unicode properties known to Perl UCD 14 and ES, scripts of Unicode 15-17, case/underscore/space variants, wrong property prefixes, plus {} built from string literals found in the subject's own name tables) x {{u,v}} x {{\\p,\\P}}; membership: every accepted expression x {{u,v}} x {{\\p,\\P}} over all 1,112,064 scalar values (one scan of the all-scalars haystack each, with the program's start predicate and again without it); every accepted expression used with both polarities in one pattern (5 templates x 6 member / non-member haystack shapes); pairs of 16 large properties in one class ([\\p{{A}}\\p{{B}}] under u and v, && and -- under v, negated union): membership on every interval edge equals the algebra of the two oracle sets; strings: {} judged strings x 7 properties of strings under v as /^\\p{{..}}$/, and every member string against the unanchored forms /\\p{{..}}/, /[\\p{{..}}]/ and /(?<=^\\p{{..}})$/ (whole-string first match, forwards and backwards); every ordered pair of properties of strings in five set-operation templates with nested unions, membership of up to 800 member strings = the algebra of the two string sets; non-trivial = expression admitted by ES / string is a member",
        cands.len(),
        from_source,
        t.universe.len()
    );
    run.assumptions = vec![
        "oracle/props_*_u17.tsv, strings_*_u17: ICU 78.2 (Unicode 17) through V8 11.3; acceptance judged by V8; sets cross-checked against regex-syntax (Unicode 16) on code points assigned in 16".into(),
        "the 2,048 surrogate code points cannot occur in a &str haystack; they are covered by the utf16 variant of this check (C11 surrogates part) when built".into(),
        "properties of strings: converse inclusion is bounded to the judged universe (seeds, single edits, all 1-2 element forms, all 2-element ZWJ structures and their one-step extensions)".into(),
    ];
    run.extra.push(("accepted_expressions".into(), J::u(t.names.len() as u64)));
    run.extra.push(("distinct_sets".into(), J::u(t.sets.len() as u64)));
    st1.merge(st2).merge(st2b).merge(st2c).merge(st3).merge(st3b)
}

fn seq_str(u: &[u32]) -> String {
    u.iter().map(|c| format!("U+{:04X}", c)).collect::<Vec<_>>().join(" ")
}

fn complement_scalars(v: &[(u32, u32)]) -> Vec<(u32, u32)> {
    let mut out = Vec::new();
    let mut next = 0u32;
    let push = |a: u32, b: u32, out: &mut Vec<(u32, u32)>| {
        if a > b {
            return;
        }
        // remove the surrogate block
        if a <= 0xD7FF && b >= 0xE000 {
            out.push((a, 0xD7FF));
            out.push((0xE000, b));
        } else if b < 0xD800 || a > 0xDFFF {
            out.push((a, b));
        } else {
            if a < 0xD800 {
                out.push((a, 0xD7FF));
            }
            if b > 0xDFFF {
                out.push((0xE000, b));
            }
        }
    };
    for &(a, b) in v {
        if a > next {
            push(next, a - 1, &mut out);
        }
        next = b + 1;
    }
    if next <= 0x10FFFF {
        push(next, 0x10FFFF, &mut out);
    }
    // merge runs that became adjacent across the surrogate gap
    let mut mg: Vec<(u32, u32)> = Vec::new();
    for r in out {
        match mg.last_mut() {
            Some(l) if l.1 == 0xD7FF && r.0 == 0xE000 => {
                // keep split: the haystack has no surrogates, so a run crossing the gap is reported split
                mg.push(r)
            }
            _ => mg.push(r),
        }
    }
    mg
}

fn sym_diff(a: &[(u32, u32)], b: &[(u32, u32)]) -> Vec<(u32, u32)> {
    let mut ev: Vec<(u32, i32)> = Vec::new();
    for &(x, y) in a {
        ev.push((x, 1));
        ev.push((y + 1, -1));
    }
    for &(x, y) in b {
        ev.push((x, 2));
        ev.push((y + 1, -2));
    }
    ev.sort();
    let mut out = Vec::new();
    let (mut ina, mut inb) = (0, 0);
    let mut start: Option<u32> = None;
    let mut i = 0;
    while i < ev.len() {
        let pos = ev[i].0;
        while i < ev.len() && ev[i].0 == pos {
            match ev[i].1 {
                1 => ina += 1,
                -1 => ina -= 1,
                2 => inb += 1,
                _ => inb -= 1,
            }
            i += 1;
        }
        let differs = (ina > 0) != (inb > 0);
        match (differs, start) {
            (true, None) => start = Some(pos),
            (false, Some(s)) => {
                out.push((s, pos - 1));
                start = None;
            }
            _ => {}
        }
    }
    out
}
