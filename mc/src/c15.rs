//! C15: observable results do not depend on build features. Each build variant replays the same
//! enumerated case set through the string APIs and emits a digest per pattern; the default build
//! compares them and decodes the first differing case.
use crate::ast::*;
use crate::c06::{self, Acc};
use crate::enumerate::Hay;
use crate::fold;
use crate::json::{self, J};
use crate::print;
use crate::report::{Run, Stats};
use crate::subject::{self, CompileOutcome, Outcome};
use rayon::prelude::*;
use std::collections::HashMap;

/// Case-folding part: every member of a non-trivial class (either oracle table) as a literal and as
/// a bracket under i and iu, searched in a haystack made of its class, its neighbours and ASCII.
fn fold_part() -> Vec<(String, Vec<u32>, Flags, Hay)> {
    let t = fold::tables();
    let mut keys: Vec<u32> = t.scf.keys().chain(t.upper.keys()).copied().collect();
    keys.sort_unstable();
    keys.dedup();
    let mut out = Vec::new();
    for c in keys {
        if (0xD800..0xE000).contains(&c) {
            continue;
        }
        let mut hay: Vec<u32> = fold::class_of(c, true);
        hay.extend(fold::class_of(c, false));
        for d in [c.wrapping_sub(1), c + 1, 'k' as u32, 'S' as u32] {
            if char::from_u32(d).is_some() {
                hay.push(d);
            }
        }
        let hay = Hay::new(hay);
        for f in ["i", "iu"] {
            out.push(("fold-literal".to_string(), print::print(&Node::Char(c)), Flags::parse(f), hay.clone()));
            out.push(("fold-class".to_string(), print::print(&Node::Class { negated: false, items: vec![ClassItem::Single(c)] }), Flags::parse(f), hay.clone()));
        }
    }
    out
}

fn digest_fold(items: &[(String, Vec<u32>, Flags, Hay)]) -> Acc {
    items
        .par_iter()
        .fold(Acc::default, |mut acc, (kind, pat, fl, hay)| {
            acc.st.add("evaluations", 1);
            acc.st.add("validated", 1);
            let d = match subject::compile(pat, *fl, false) {
                CompileOutcome::Ok(re) => match subject::api_find_n(&re, &hay.text, 0, 64, u64::MAX) {
                    Outcome::Ok(v) => {
                        if !v.is_empty() {
                            acc.st.add("nontrivial", 1);
                        }
                        c06::h64(&v)
                    }
                    other => c06::h64(&format!("{:?}", other)),
                },
                other => c06::h64(&format!("{:?}", matches!(other, CompileOutcome::Err(_)))),
            };
            acc.digests.push((c06::h64(&(kind, pat, fl)), d));
            acc
        })
        .reduce(Acc::default, Acc::merge)
}

pub fn explore_all(run: &Run) -> (Stats, Vec<(u64, u64)>) {
    c06::LIGHT.store(!run.thorough(), std::sync::atomic::Ordering::Relaxed);
    let (st, mut digests) = c06::explore(run);
    let f = digest_fold(&fold_part());
    digests.extend(f.digests);
    (st.merge(f.st), digests)
}

pub fn worker(out_prefix: &str) -> i32 {
    let run = Run::new("C15", "model_checking");
    let (st, mut digests) = explore_all(&run);
    digests.sort();
    digests.dedup_by_key(|d| d.0);
    let mut bin = Vec::with_capacity(digests.len() * 16);
    for (a, b) in &digests {
        bin.extend_from_slice(&a.to_le_bytes());
        bin.extend_from_slice(&b.to_le_bytes());
    }
    if std::fs::write(format!("{}.bin", out_prefix), bin).is_err() || std::fs::write(format!("{}.json", out_prefix), c06::stats_to_json(&st, &digests).pretty()).is_err() {
        eprintln!("MACHINERY: cannot write worker output {}", out_prefix);
        return 2;
    }
    println!("C15 worker [{}]: cases={} patterns={}", c06::variant_name_full(), st.get("evaluations"), digests.len());
    0
}

pub fn c15(run: &mut Run, workers: &[String]) -> Stats {
    // The default build explores as a child worker too (C15_BASELINE = its output prefix): on a broken tree
    // the unchecked default build may crash, and that must be a verdict, not the end of this process.
    let (mut st, digests): (Stats, Vec<(u64, u64)>) = match std::env::var("C15_BASELINE") {
        Ok(pre) if !pre.is_empty() => {
            if let Ok(sig) = std::fs::read_to_string(format!("{}.crash", pre)) {
                let mut st = Stats::default();
                st.add("evaluations", 1);
                st.add("validated", 1);
                let case = J::obj().set("kind", J::s("worker_crash")).set("variant", J::s("default build")).set("what", J::s("the exploration process of the default build was killed by a signal on the common case set")).set("signal", J::s(sig.trim()));
                st.violation(&run.known, "C15", &format!("the default build crashed ({}) on the common case set", sig.trim()), 0, case);
                run.rule = "exploration cut short: the default build's worker crashed".into();
                return st;
            }
            let (Ok(txt), Ok(bin)) = (std::fs::read_to_string(format!("{}.json", pre)), std::fs::read(format!("{}.bin", pre))) else {
                let mut st = Stats::default();
                st.error(format!("missing baseline worker output {}", pre));
                return st;
            };
            let mut st = Stats::default();
            if let Ok(j) = json::parse(&txt) {
                for (k, v) in j.get("counters").and_then(|c| match c { J::Obj(o) => Some(o.clone()), _ => None }).unwrap_or_default() {
                    if let Some(n) = v.int() {
                        st.add(&k, n as u64);
                    }
                }
                for smp in j.get("samples").and_then(|c| c.arr()).cloned().unwrap_or_default().into_iter().take(6) {
                    st.sample(|| smp);
                }
            }
            let digests: Vec<(u64, u64)> = bin.chunks_exact(16).map(|ch| (u64::from_le_bytes(ch[0..8].try_into().unwrap()), u64::from_le_bytes(ch[8..16].try_into().unwrap()))).collect();
            (st, digests)
        }
        _ => explore_all(run),
    };
    // violations found by the monitors belong to C06; here only the comparison counts
    st.clusters.clear();
    st.known.clear();
    let mine: HashMap<u64, u64> = digests.iter().copied().collect();
    let mut variants = vec![J::obj().set("variant", J::s("default build")).set("patterns", J::u(mine.len() as u64)).set("cases", J::u(st.get("evaluations")))];
    for pre in workers {
        // a variant whose exploration process was killed by a signal (recorded by the driver) differs from the
        // default build, which explored the same space to the end in this process
        if let Ok(sig) = std::fs::read_to_string(format!("{}.crash", pre)) {
            let label = std::path::Path::new(pre).file_name().and_then(|f| f.to_str()).unwrap_or("?").to_string();
            let case = J::obj().set("kind", J::s("worker_crash")).set("variant", J::s(&label)).set("what", J::s("the exploration process of this build variant was killed by a signal on the case set the default build completes")).set("signal", J::s(sig.trim()));
            st.violation(&run.known, "C15", &format!("build variant {} crashed ({}) on the common case set", label, sig.trim()), 0, case);
            variants.push(J::obj().set("variant", J::s(&label)).set("crashed", J::s(sig.trim())));
            continue;
        }
        let (Ok(txt), Ok(bin)) = (std::fs::read_to_string(format!("{}.json", pre)), std::fs::read(format!("{}.bin", pre))) else {
            st.error(format!("missing worker output {}", pre));
            continue;
        };
        let vname = json::parse(&txt).ok().and_then(|j| j.get("variant").and_then(|v| v.str()).map(|s| s.to_string())).unwrap_or_else(|| "?".into());
        let vname = format!("{} ({})", std::path::Path::new(pre).file_name().and_then(|f| f.to_str()).unwrap_or("?"), vname);
        let mut compared = 0u64;
        let mut differing: Vec<u64> = Vec::new();
        for ch in bin.chunks_exact(16) {
            let k = u64::from_le_bytes(ch[0..8].try_into().unwrap());
            let d = u64::from_le_bytes(ch[8..16].try_into().unwrap());
            match mine.get(&k) {
                Some(&m) => {
                    compared += 1;
                    if m == c06::UNDECIDED || d == c06::UNDECIDED {
                        st.add("patterns_not_compared_fuel", 1);
                    } else if m != d {
                        differing.push(k);
                    }
                }
                None => st.error(format!("variant {} evaluated a pattern the default build did not", vname)),
            }
        }
        if compared != mine.len() as u64 {
            st.error(format!("variant {} evaluated {} patterns, default {}", vname, compared, mine.len()));
        }
        st.add("validated", compared);
        st.add("states", compared);
        if !differing.is_empty() {
            let case = J::obj()
                .set("kind", J::s("variant_digest"))
                .set("variant", J::s(&vname))
                .set("what", J::s("results through the string APIs differ between this build variant and the default build"))
                .set("patterns_differing", J::u(differing.len() as u64))
                .set("first_pattern_keys", J::Arr(differing.iter().take(5).map(|k| J::s(&format!("{:016x}", k))).collect()))
                .set("how_to_locate", J::s("mc c15-locate <key> in both variants prints the pattern and its per-case results"));
            st.violation(&run.known, "C15", &format!("results differ between build variants: {} vs default", vname), 1, case);
        }
        variants.push(J::obj().set("variant", J::s(&vname)).set("patterns_compared", J::u(compared)).set("patterns_differing", J::u(differing.len() as u64)));
    }
    for (k, v) in [("a", "1")] {
        let _ = (k, v);
    }
    st.sample(|| J::obj().set("case_set", J::s("C06 exploration set + case-folding part")).set("variants", J::Arr(variants.clone())));
    run.extra.push(("variants".into(), J::Arr(variants)));
    run.rule = "configurations {default, index-positions, prohibit-unsafe, index-positions+prohibit-unsafe, utf16, no-std+alloc} x one fixed case set: the exhaustive C06 space (profiles utf8, 1char, look, lit, icase, core, vset x haystacks over all UTF-8 lengths x every start x both executors and ASCII entry points x opt/no_opt) plus every member of a non-trivial case-folding class as /c/ and /[c]/ under i and iu; a digest per pattern (compiled-or-error, every match range and capture) from each build; non-trivial = a match exists".into();
    run.assumptions = vec!["string APIs only (the utf16 build is compared through its &str entry points)".into(), "the no-std build has no fuel hook; it is protected by the process wall limit".into()];
    st
}
