//! The shared exhaustive sweep behind C01, C02, C03, C04, C05, C09 and C13:
//! every pattern of a profile x every flag set x every haystack x every start offset.
use crate::ast::*;
use crate::enumerate::{self, Hay};
use crate::json::J;
use crate::print;
use crate::profiles::{self, SweepProfile};
use crate::refmatch::{self, RefResult};
use crate::report::{Known, Run, Stats};
use crate::subject::{self, CompileOutcome, Mode, Outcome, SMatch};
use rayon::prelude::*;

#[derive(Clone, Copy, PartialEq, Eq, Debug)]
pub enum Prop {
    C01,
    C02,
    C03,
    C04,
    C05,
    C09,
    C13,
}

impl Prop {
    pub fn id(&self) -> &'static str {
        match self {
            Prop::C01 => "C01",
            Prop::C02 => "C02",
            Prop::C03 => "C03",
            Prop::C04 => "C04",
            Prop::C05 => "C05",
            Prop::C09 => "C09",
            Prop::C13 => "C13",
        }
    }
}

pub struct Cfg {
    /// property id violations are reported under (C12 reuses C01's comparison)
    pub pid: &'static str,
    /// signature used to group violations
    pub sig: fn(&[u32]) -> String,
    pub prop: Prop,
    pub fuel: u64,
    pub ref_limit: u64,
    pub k_ratio: u64,
    /// long haystacks (size-parameterised families): only the start offsets near both ends, around the
    /// 8 / 16 / 32-byte marks and in the middle
    pub sparse_starts: bool,
}

/// Shape signature of a pattern: letters -> x, counts -> n. Used only to group violations.
pub fn shape(pat: &[u32]) -> String {
    let mut s = String::new();
    let mut in_brace = false;
    let mut prev_bs = false;
    for &c in pat {
        let ch = char::from_u32(c).unwrap_or('\u{FFFD}');
        if prev_bs {
            s.push(ch);
            prev_bs = false;
            continue;
        }
        match ch {
            '\\' => {
                s.push('\\');
                prev_bs = true;
            }
            '{' => {
                in_brace = true;
                s.push('{');
            }
            '}' => {
                in_brace = false;
                s.push('}');
            }
            d if d.is_ascii_digit() && in_brace => {
                if !s.ends_with('n') {
                    s.push('n')
                }
            }
            l if l.is_alphabetic() => {
                if !s.ends_with('x') {
                    s.push('x')
                }
            }
            o => s.push(o),
        }
    }
    if s.len() > 60 {
        s.truncate(60);
        s.push('~');
    }
    s
}

pub fn case_json(pat: &[u32], flags: Flags, hay: &Hay, start: usize, what: &str, expected: J, got: J) -> J {
    J::obj()
        .set("kind", J::s("search"))
        .set("pattern", J::s(&print::show(pat)))
        .set("pattern_cps", J::cps(pat))
        .set("flags", J::s(&flags.to_string()))
        .set("haystack", J::s(&print::show(&hay.cps)))
        .set("haystack_cps", J::cps(&hay.cps))
        .set("start", J::u(start as u64))
        .set("what", J::s(what))
        .set("expected", expected)
        .set("got", got)
}

pub fn smatch_json(m: &SMatch) -> J {
    J::obj()
        .set("range", J::Arr(vec![J::u(m.start as u64), J::u(m.end as u64)]))
        .set(
            "caps",
            J::Arr(m.caps.iter().map(|c| match c {
                Some((a, b)) => J::Arr(vec![J::u(*a as u64), J::u(*b as u64)]),
                None => J::Null,
            }).collect()),
        )
}

pub fn seq_json(v: &[SMatch]) -> J {
    J::Arr(v.iter().map(smatch_json).collect())
}

pub fn outcome_json(o: &Outcome<Vec<SMatch>>) -> J {
    match o {
        Outcome::Ok(v) => seq_json(v),
        Outcome::Fuel => J::s("FUEL-EXHAUSTED"),
        Outcome::Panic(m) => J::s(&format!("PANIC: {}", m)),
    }
}

/// Reference first match per start, in byte offsets, from anchored attempts at every position.
pub struct RefTable {
    pub anch: Vec<RefResult>,
    pub steps: u64,
    pub cut: bool,
}

pub fn ref_table(prog: &refmatch::Prog, hay: &Hay, limit: u64) -> RefTable {
    let mut anch = Vec::with_capacity(hay.cps.len() + 1);
    let mut steps = 0;
    let mut cut = false;
    for p in 0..=hay.cps.len() {
        let (r, s) = prog.match_at(&hay.cps, p, limit);
        steps += s;
        if r == RefResult::Cut {
            cut = true;
        }
        anch.push(r);
    }
    RefTable { anch, steps, cut }
}

pub fn ref_to_smatch(r: &refmatch::RefMatch, hay: &Hay) -> SMatch {
    SMatch { start: hay.offs[r.start], end: hay.offs[r.end], caps: r.caps.iter().map(|c| c.map(|(a, b)| (hay.offs[a], hay.offs[b]))).collect() }
}

impl RefTable {
    /// first match at or after code point index s
    pub fn first_from(&self, s: usize, hay: &Hay) -> Option<SMatch> {
        for p in s..self.anch.len() {
            if let RefResult::Match(m) = &self.anch[p] {
                return Some(ref_to_smatch(m, hay));
            }
        }
        None
    }
    /// the whole match sequence from s under the lastIndex advance rule
    pub fn all_from(&self, s: usize, hay: &Hay) -> Vec<SMatch> {
        let mut out = Vec::new();
        let mut cur = s;
        while cur < self.anch.len() {
            let mut found = None;
            for p in cur..self.anch.len() {
                if let RefResult::Match(m) = &self.anch[p] {
                    found = Some(m.clone());
                    break;
                }
            }
            match found {
                None => break,
                Some(m) => {
                    cur = if m.end == m.start { m.end + 1 } else { m.end };
                    out.push(ref_to_smatch(&m, hay));
                }
            }
        }
        out
    }
}

fn byte_start(hay: &Hay, s: usize) -> usize {
    if s <= hay.cps.len() {
        hay.offs[s]
    } else {
        hay.text.len() + (s - hay.cps.len())
    }
}

/// Evaluate one (pattern, flags) against every haystack and start for the given property.
pub fn eval_pattern(cfg: &Cfg, ast: &Node, flags: Flags, hays: &[Hay], known: &Known, st: &mut Stats) {
    st.add("patterns_generated", 1);
    if ast.validate(flags).is_err() {
        st.add("patterns_outside_language", 1);
        return;
    }
    let pat = print::print(ast);
    eval_pattern_text(cfg, ast, pat, flags, hays, known, st)
}

/// Same, with the pattern source given explicitly (patterns that come from the reference parser).
/// Work already spent on violations (a fuel exhaustion costs as much as thousands of ordinary cases).
/// When a broken tree makes nearly every case a violation the exploration stops early: the verdict
/// is already decided, and the evidence says the run was cut.
pub static VIOLATION_COST: std::sync::atomic::AtomicU64 = std::sync::atomic::AtomicU64::new(0);
pub const VIOLATION_BUDGET: u64 = 3_000_000;

pub fn eval_pattern_text(cfg: &Cfg, ast: &Node, pat: Vec<u32>, flags: Flags, hays: &[Hay], known: &Known, st: &mut Stats) {
    if VIOLATION_COST.load(std::sync::atomic::Ordering::Relaxed) > VIOLATION_BUDGET {
        st.add("patterns_skipped_after_violation_budget", 1);
        return;
    }
    subject::set_case_desc(format!("/{}/{} (property {})", print::show(&pat), flags.to_string(), cfg.pid));
    let re = match subject::compile(&pat, flags, false) {
        CompileOutcome::Ok(re) => re,
        CompileOutcome::Err(_) => {
            st.add("patterns_rejected_by_subject", 1);
            return;
        }
        CompileOutcome::Panic(_) => {
            st.add("patterns_compile_panic", 1);
            return;
        }
    };
    // the reference program is needed by the properties that compare with the ES semantics; the differential
    // ones (executor / pipeline / prefilter / entry point) go on without it (e.g. more than 12 groups)
    let needs_ref = matches!(cfg.prop, Prop::C01 | Prop::C05 | Prop::C09);
    let prog = match refmatch::compile(ast, flags) {
        Ok(p) => Some(p),
        Err(_) => {
            st.add("patterns_unsupported_by_reference", 1);
            if needs_ref {
                return;
            }
            None
        }
    };
    st.add("patterns_evaluated", 1);
    let pid = cfg.pid;
    let sh = || (cfg.sig)(&pat);
    macro_rules! vio {
        ($what:expr, $hay:expr, $s:expr, $exp:expr, $got:expr) => {{
            let what: &str = $what;
            let cluster = format!("{} /{}/{}", what, sh(), flags.to_string());
            let w = pat.len() * 8 + $hay.cps.len();
            VIOLATION_COST.fetch_add(if what.contains("did not terminate") { 2000 } else { 1 }, std::sync::atomic::Ordering::Relaxed);
            st.violation(known, pid, &cluster, w, case_json(&pat, flags, $hay, $s, what, $exp, $got));
        }};
    }

    // the string entry points (Regex::with_flags(&str, &str), Regex::new, FromStr) must build the same program
    // as from_unicode with the Flags struct, which is what every other part of this sweep compiles through
    if cfg.prop == Prop::C01 {
        if let Some(text) = pat.iter().map(|&c| char::from_u32(c)).collect::<Option<String>>() {
            st.add("string_entry_point_compiles", 1);
            let fs = flags.to_string();
            let fp = subject::fingerprint(&re);
            let mut others: Vec<(&str, Result<Result<regress::Regex, regress::Error>, ()>)> = vec![("Regex::with_flags(&str, &str)", std::panic::catch_unwind(|| regress::Regex::with_flags(&text, fs.as_str())).map_err(|_| ()))];
            if fs.is_empty() {
                others.push(("Regex::new(&str)", std::panic::catch_unwind(|| regress::Regex::new(&text)).map_err(|_| ())));
                others.push(("str::parse::<Regex>()", std::panic::catch_unwind(|| text.parse::<regress::Regex>()).map_err(|_| ())));
            }
            for (name, r) in others {
                let same = match &r {
                    Ok(Ok(r2)) => subject::fingerprint(r2) == fp,
                    _ => false,
                };
                if !same {
                    let h = Hay::new(vec![]);
                    let got = match &r {
                        Ok(Ok(r2)) => J::s(&format!("{:?}", r2).chars().take(300).collect::<String>()),
                        Ok(Err(e)) => J::s(&format!("Err({})", e.text)),
                        Err(()) => J::s("panic"),
                    };
                    vio!(&format!("{} does not build the program that from_unicode + Flags builds", name), &h, 0, J::s(&format!("{:?}", re).chars().take(300).collect::<String>()), got);
                }
            }
        }
    }

    // per-property extra programs
    let re_noopt = if cfg.prop == Prop::C03 || cfg.prop == Prop::C05 || cfg.prop == Prop::C13 {
        match subject::compile(&pat, flags, true) {
            CompileOutcome::Ok(r) => Some(r),
            other => {
                if cfg.prop == Prop::C03 {
                    let h = Hay::new(vec![]);
                    vio!("no_opt pipeline fails to compile what the optimising pipeline accepts", &h, 0, J::s("Ok"), J::s(&format!("{:?}", other)));
                }
                None
            }
        }
    } else {
        None
    };
    let re_nopf = if cfg.prop == Prop::C04 {
        match subject::compile_without_prefilter(&pat, flags, false) {
            CompileOutcome::Ok(r) => Some(r),
            other => {
                st.error(format!("cannot build prefilter-free program for {}: {:?}", print::show(&pat), other));
                None
            }
        }
    } else {
        None
    };
    if cfg.prop == Prop::C04 {
        st.add(&format!("predicate_kind_{}", subject::start_predicate_kind(&re)), 1);
    }

    for hay in hays {
        let n = hay.cps.len();
        let rt = if matches!(cfg.prop, Prop::C01 | Prop::C05 | Prop::C09) {
            let rt = ref_table(prog.as_ref().unwrap(), hay, cfg.ref_limit);
            if rt.cut {
                st.add("reference_cut", 1);
                if cfg.prop != Prop::C05 {
                    continue;
                }
            }
            Some(rt)
        } else {
            None
        };
        for s in 0..=n + 1 {
            if cfg.sparse_starts && n > 12 && !(s <= 2 || s + 3 >= n || s == n / 2 || matches!(s, 7 | 8 | 9 | 15 | 16 | 17 | 31 | 32 | 33)) {
                continue;
            }
            let bs = byte_start(hay, s);
            if !(cfg.prop == Prop::C13 && !hay.is_ascii()) {
                st.add("evaluations", 1);
            }
            match cfg.prop {
                Prop::C01 => {
                    let rt = rt.as_ref().unwrap();
                    let exp = rt.first_from(s, hay);
                    if exp.is_some() {
                        st.add("nontrivial", 1);
                    }
                    let got = subject::find_n(&re, subject::BT, &hay.text, bs, 1, cfg.fuel);
                    st.add("transitions", subject::steps());
                    match &got {
                        Outcome::Ok(v) => {
                            st.add("validated", 1);
                            if v.first() != exp.as_ref() {
                                vio!("first match differs from ES reference", hay, bs, exp.as_ref().map(smatch_json).unwrap_or(J::Null), seq_json(v));
                            } else if exp.is_some() {
                                st.sample(|| case_json(&pat, flags, hay, bs, "agree", J::Null, seq_json(v)));
                            }
                        }
                        Outcome::Fuel => {
                            st.add("undecided_fuel", 1);
                            VIOLATION_COST.fetch_add(2000, std::sync::atomic::Ordering::Relaxed);
                        }
                        Outcome::Panic(m) => {
                            vio!("panic during search", hay, bs, exp.as_ref().map(smatch_json).unwrap_or(J::Null), J::s(m));
                        }
                    }
                }
                Prop::C02 => {
                    let mut modes: Vec<(Mode, Mode)> = vec![(subject::BT, subject::PIKE)];
                    if hay.is_ascii() {
                        modes.push((subject::BT_ASCII, subject::PIKE_ASCII));
                    }
                    for (ma, mb) in modes {
                        let a = subject::find_n(&re, ma, &hay.text, bs, 64, cfg.fuel);
                        st.add("transitions", subject::steps());
                        let b = subject::find_n(&re, mb, &hay.text, bs, 64, cfg.fuel * 8);
                        st.add("transitions", subject::steps());
                        match (&a, &b) {
                            (Outcome::Ok(x), Outcome::Ok(y)) => {
                                st.add("validated", 1);
                                if !x.is_empty() && !ma.ascii {
                                    st.add("nontrivial", 1);
                                }
                                if x != y {
                                    vio!(if ma.ascii { "backtracking and PikeVM differ (ascii mode)" } else { "backtracking and PikeVM differ" }, hay, bs, seq_json(y), seq_json(x));
                                } else if !x.is_empty() {
                                    st.sample(|| case_json(&pat, flags, hay, bs, "agree", J::Null, seq_json(x)));
                                }
                            }
                            (Outcome::Fuel, _) | (_, Outcome::Fuel) => st.add("undecided_fuel", 1),
                            _ => {
                                vio!("panic during search", hay, bs, outcome_json(&b), outcome_json(&a));
                            }
                        }
                    }
                }
                Prop::C03 => {
                    let Some(rn) = &re_noopt else { continue };
                    for mode in [subject::BT, subject::PIKE] {
                        let a = subject::find_n(&re, mode, &hay.text, bs, 64, cfg.fuel);
                        st.add("transitions", subject::steps());
                        let b = subject::find_n(rn, mode, &hay.text, bs, 64, cfg.fuel);
                        st.add("transitions", subject::steps());
                        match (&a, &b) {
                            (Outcome::Ok(x), Outcome::Ok(y)) => {
                                st.add("validated", 1);
                                if !y.is_empty() && mode == subject::BT {
                                    st.add("nontrivial", 1);
                                }
                                if x != y {
                                    vio!("optimised and no_opt programs differ", hay, bs, seq_json(y), seq_json(x));
                                } else if !x.is_empty() {
                                    st.sample(|| case_json(&pat, flags, hay, bs, "agree", J::Null, seq_json(x)));
                                }
                            }
                            (Outcome::Fuel, _) | (_, Outcome::Fuel) => st.add("undecided_fuel", 1),
                            _ => {
                                vio!("panic during search", hay, bs, outcome_json(&b), outcome_json(&a));
                            }
                        }
                    }
                }
                Prop::C04 => {
                    let Some(rn) = &re_nopf else { continue };
                    let a = subject::find_n(&re, subject::BT, &hay.text, bs, 64, cfg.fuel);
                    let sa = subject::steps();
                    st.add("transitions", sa);
                    let b = subject::find_n(rn, subject::BT, &hay.text, bs, 64, cfg.fuel);
                    let sb = subject::steps();
                    st.add("transitions", sb);
                    if sa < sb {
                        st.add("prefilter_skipped_work", 1);
                    }
                    match (&a, &b) {
                        (Outcome::Ok(x), Outcome::Ok(y)) => {
                            st.add("validated", 1);
                            if !y.is_empty() {
                                st.add("nontrivial", 1);
                            }
                            if x != y {
                                vio!("search with start predicate differs from search without it", hay, bs, seq_json(y), seq_json(x));
                            } else if !x.is_empty() && sa < sb {
                                st.sample(|| case_json(&pat, flags, hay, bs, "agree; prefilter skipped work", J::Null, seq_json(x)));
                            }
                        }
                        (Outcome::Fuel, _) | (_, Outcome::Fuel) => st.add("undecided_fuel", 1),
                        _ => {
                            vio!("panic during search", hay, bs, outcome_json(&b), outcome_json(&a));
                        }
                    }
                }
                Prop::C05 => {
                    let rt = rt.as_ref().unwrap();
                    // allowed work: K x (the reference's own steps for this haystack + size terms)
                    let bound = cfg.k_ratio * (rt.steps + n as u64 + pat.len() as u64 + 16);
                    // the fuel is the bound (plus one) when that is below the hard cap, so that exhausting
                    // it *is* exceeding the bound; above the cap a cut run is undecided, not a verdict
                    let decidable = !rt.cut && bound < cfg.fuel;
                    let fuel = if decidable { bound + 1 } else { cfg.fuel };
                    let mut progs: Vec<(&regress::Regex, &str)> = vec![(&re, "opt")];
                    if let Some(rn) = &re_noopt {
                        progs.push((rn, "no_opt"));
                    }
                    for (r, pn) in progs {
                        for mode in [subject::BT, subject::PIKE] {
                            let o = subject::find_n(r, mode, &hay.text, bs, 64, fuel);
                            let steps = subject::steps();
                            let bts = subject::max_bts() as u64;
                            st.add("transitions", steps);
                            st.add("validated", 1);
                            let cur_max = st.get("max_steps_seen");
                            if steps > cur_max {
                                st.counters.insert("max_steps_seen".into(), steps);
                            }
                            if rt.steps > 0 && !rt.cut {
                                let ratio = steps * 100 / (rt.steps + n as u64 + pat.len() as u64 + 16);
                                if ratio > st.get("max_ratio_x100") {
                                    st.counters.insert("max_ratio_x100".into(), ratio);
                                }
                            }
                            let who = format!("{:?}/{}", mode.backend, pn);
                            match o {
                                Outcome::Fuel => {
                                    if decidable {
                                        vio!("search did not terminate within K x the reference's steps", hay, bs, J::s(&format!("<= {} steps (reference used {})", bound, rt.steps)), J::s(&format!("{}: still running after {} steps, backtrack store reached {}", who, fuel, bts)));
                                    } else {
                                        st.add("undecided_reference_too_expensive", 1);
                                    }
                                }
                                Outcome::Panic(m) => {
                                    vio!("panic during search", hay, bs, J::Null, J::s(&m));
                                }
                                Outcome::Ok(v) => {
                                    if !v.is_empty() && pn == "opt" && mode == subject::BT {
                                        st.add("nontrivial", 1);
                                        st.sample(|| case_json(&pat, flags, hay, bs, "terminated", J::s(&format!("<= {} steps (reference used {})", bound, rt.steps)), J::s(&format!("{} steps, backtrack store <= {}", steps, bts))));
                                    }
                                    // each step pushes at most a few records (a loop entry pushes three, a
                                    // successful lookaround one per enclosed group)
                                    let per_step = prog.as_ref().map(|p| p.ngroups).unwrap_or(0) as u64 + 4;
                                    if bts > per_step * steps + 4 {
                                        vio!("backtrack store not bounded by the search performed", hay, bs, J::s(&format!("<= {} x {} steps", per_step, steps)), J::u(bts));
                                    }
                                }
                            }
                        }
                    }
                }
                Prop::C09 => {
                    let rt = rt.as_ref().unwrap();
                    let mut modes = vec![subject::BT, subject::PIKE];
                    if hay.is_ascii() {
                        modes.push(subject::BT_ASCII);
                        modes.push(subject::PIKE_ASCII);
                    }
                    let exp = if s <= n { rt.all_from(s, hay) } else { vec![] };
                    if !exp.is_empty() {
                        st.add("nontrivial", 1);
                    }
                    for mode in modes {
                        let r = iterate_history(&re, mode, hay, bs, cfg.fuel);
                        st.add("transitions", r.calls);
                        st.add("states", r.calls);
                        match r.outcome {
                            Outcome::Fuel => st.add("undecided_fuel", 1),
                            Outcome::Panic(m) => {
                                vio!("panic during iteration", hay, bs, seq_json(&exp), J::s(&m));
                            }
                            Outcome::Ok(seq) => {
                                st.add("validated", 1);
                                if let Some(bad) = r.invariant {
                                    vio!(&bad, hay, bs, seq_json(&exp), seq_json(&seq));
                                }
                                // unfold of first-match-from-cursor on fresh iterators
                                let unf = unfold_model(&re, mode, hay, bs, cfg.fuel);
                                match unf {
                                    Outcome::Ok(u) => {
                                        if u != seq {
                                            vio!("iterator sequence differs from the lastIndex unfold of first matches", hay, bs, seq_json(&u), seq_json(&seq));
                                        }
                                    }
                                    Outcome::Fuel => st.add("undecided_fuel", 1),
                                    Outcome::Panic(m) => {
                                        vio!("panic during iteration", hay, bs, J::Null, J::s(&m));
                                    }
                                }
                                if seq != exp {
                                    vio!("iterator sequence differs from the reference matchAll", hay, bs, seq_json(&exp), seq_json(&seq));
                                } else if !seq.is_empty() {
                                    st.sample(|| case_json(&pat, flags, hay, bs, "agree", J::Null, seq_json(&seq)));
                                }
                            }
                        }
                    }
                }
                Prop::C13 => {
                    if !hay.is_ascii() {
                        continue;
                    }
                    for (mu, ma, no_opt) in [(subject::BT, subject::BT_ASCII, false), (subject::PIKE, subject::PIKE_ASCII, false), (subject::BT, subject::BT_ASCII, true), (subject::PIKE, subject::PIKE_ASCII, true)] {
                        let re: &regress::Regex = if no_opt {
                            match &re_noopt {
                                Some(r) => r,
                                None => continue,
                            }
                        } else {
                            &re
                        };
                        let a = subject::find_n(re, ma, &hay.text, bs, 64, cfg.fuel);
                        st.add("transitions", subject::steps());
                        let b = subject::find_n(re, mu, &hay.text, bs, 64, cfg.fuel);
                        st.add("transitions", subject::steps());
                        match (&a, &b) {
                            (Outcome::Ok(x), Outcome::Ok(y)) => {
                                st.add("validated", 1);
                                if !y.is_empty() && ma.backend == subject::Backend::Backtrack {
                                    st.add("nontrivial", 1);
                                }
                                if x != y {
                                    vio!(match (ma.backend == subject::Backend::Pike, no_opt) { (true, false) => "ascii and utf-8 entry points differ (PikeVM)", (false, false) => "ascii and utf-8 entry points differ", (true, true) => "ascii and utf-8 entry points differ (PikeVM, no_opt)", (false, true) => "ascii and utf-8 entry points differ (no_opt)" }, hay, bs, seq_json(y), seq_json(x));
                                } else if !x.is_empty() {
                                    st.sample(|| case_json(&pat, flags, hay, bs, "agree", J::Null, seq_json(x)));
                                }
                            }
                            (Outcome::Fuel, _) | (_, Outcome::Fuel) => st.add("undecided_fuel", 1),
                            _ => {
                                vio!("panic during search", hay, bs, outcome_json(&b), outcome_json(&a));
                            }
                        }
                    }
                }
            }
        }
    }
}

pub struct IterHistory {
    pub outcome: Outcome<Vec<SMatch>>,
    pub calls: u64,
    pub invariant: Option<String>,
}

/// Drive one iterator through its whole call history: next() until None plus three more calls,
/// checking the invariants after every call.
pub fn iterate_history(re: &regress::Regex, mode: Mode, hay: &Hay, bs: usize, fuel: u64) -> IterHistory {
    use regress::backends;
    let mut calls = 0u64;
    let mut invariant: Option<String> = None;
    let text = &hay.text;
    let nchars = hay.cps.len();
    let outcome = subject::guarded(fuel, || {
        let mut out: Vec<SMatch> = Vec::new();
        macro_rules! drive {
            ($it:expr) => {{
                let mut it = $it;
                let mut none_seen = 0;
                loop {
                    calls += 1;
                    match it.next() {
                        Some(m) => {
                            let m = SMatch::from(&m);
                            if none_seen > 0 && invariant.is_none() {
                                invariant = Some("iterator yields a match after returning None".into());
                            }
                            if let Some(p) = out.last() {
                                if !(m.start > p.start) && invariant.is_none() {
                                    invariant = Some("match starts do not strictly increase".into());
                                }
                                if m.start < p.end && invariant.is_none() {
                                    invariant = Some("matches overlap".into());
                                }
                            }
                            if m.start < bs.min(text.len()) && invariant.is_none() {
                                invariant = Some("match starts before the start offset".into());
                            }
                            out.push(m);
                            if out.len() > nchars + 1 {
                                if invariant.is_none() {
                                    invariant = Some("more matches than character positions + 1".into());
                                }
                                break;
                            }
                        }
                        None => {
                            none_seen += 1;
                            if none_seen >= 4 {
                                break;
                            }
                        }
                    }
                }
            }};
        }
        match (mode.backend, mode.ascii) {
            // the default executor is driven through the public entry point
            (subject::Backend::Backtrack, false) => drive!(re.find_from(text, bs)),
            (subject::Backend::Backtrack, true) => drive!(backends::find_ascii::<backends::BacktrackExecutor>(re, text, bs)),
            #[cfg(feature = "pikevm")]
            (subject::Backend::Pike, false) => drive!(backends::find::<backends::PikeVMExecutor>(re, text, bs)),
            #[cfg(feature = "pikevm")]
            (subject::Backend::Pike, true) => drive!(backends::find_ascii::<backends::PikeVMExecutor>(re, text, bs)),
            #[cfg(not(feature = "pikevm"))]
            _ => {}
        }
        out
    });
    if bs > text.len() {
        if let Outcome::Ok(v) = &outcome {
            if !v.is_empty() && invariant.is_none() {
                invariant = Some("start beyond the end yields a match".into());
            }
        }
    }
    IterHistory { outcome, calls, invariant }
}

/// The model of C09: repeatedly take the first match at or after a cursor on a *fresh* iterator.
pub fn unfold_model(re: &regress::Regex, mode: Mode, hay: &Hay, bs: usize, fuel: u64) -> Outcome<Vec<SMatch>> {
    let mut out = Vec::new();
    let mut cur = bs;
    let text = &hay.text;
    loop {
        if cur > text.len() + 1 {
            break;
        }
        match subject::find_n(re, mode, text, cur, 1, fuel) {
            Outcome::Ok(v) => match v.into_iter().next() {
                None => break,
                Some(m) => {
                    cur = if m.end == m.start {
                        // one character past an empty match
                        if mode.ascii {
                            m.end + 1
                        } else {
                            match text.get(m.end..).and_then(|t| t.chars().next()) {
                                Some(c) => m.end + c.len_utf8(),
                                None => text.len() + 1,
                            }
                        }
                    } else {
                        m.end
                    };
                    out.push(m);
                    if out.len() > hay.cps.len() + 2 {
                        break;
                    }
                }
            },
            Outcome::Fuel => return Outcome::Fuel,
            Outcome::Panic(m) => return Outcome::Panic(m),
        }
    }
    Outcome::Ok(out)
}

pub fn lit_hays() -> Vec<Hay> {
    // haystacks for P-lit: short strings plus long runs that contain / nearly contain the literals
    let mut v = enumerate::all_hays(&[b'a' as u32, b'b' as u32], 3);
    let run = |n: usize, off: usize| -> Vec<u32> { (0..n).map(|i| if (i + off) % 2 == 0 { b'a' as u32 } else { b'b' as u32 }).collect() };
    for n in [14usize, 15, 16, 17, 18, 31, 32, 33, 34, 35] {
        for off in [0usize, 1] {
            v.push(Hay::new(run(n, off)));
            let mut x = run(n, off);
            x.insert(0, b'b' as u32);
            v.push(Hay::new(x));
            let mut y = run(n, off);
            let m = y.len() / 2;
            y[m] = if y[m] == b'a' as u32 { b'b' as u32 } else { b'a' as u32 };
            v.push(Hay::new(y));
            let mut z: Vec<u32> = run(n, off).into_iter().map(|c| if c == b'a' as u32 { b'A' as u32 } else { c }).collect();
            z.push(b'a' as u32);
            v.push(Hay::new(z));
        }
    }
    v.push(Hay::new("aé".chars().map(|c| c as u32).collect()));
    v.push(Hay::new("xaéé€".chars().map(|c| c as u32).collect()));
    v.push(Hay::new("AÉé€".chars().map(|c| c as u32).collect()));
    v
}

/// Haystacks for P-longlook: every sequence of at most two pieces out of the long literal, the literal
/// with its 16-byte chunks swapped, and 'x', plus the three-piece sequences of two long literals and one 'x'.
pub fn longlook_hays() -> Vec<Hay> {
    let pieces: [Vec<u32>; 3] = [enumerate::chars("abcdefghijklmnopq"), enumerate::chars("qabcdefghijklmnop"), enumerate::chars("x")];
    let mut out = vec![Hay::new(vec![])];
    let mut prev: Vec<Vec<usize>> = vec![vec![]];
    for round in 0..3 {
        let mut next = Vec::new();
        for p in &prev {
            for q in 0..pieces.len() {
                let mut v = p.clone();
                v.push(q);
                // of the three-piece sequences keep those with one 'x' and no repeated long piece
                if round == 2 && (v.iter().filter(|&&i| i == 2).count() != 1 || v.contains(&1)) {
                    continue;
                }
                next.push(v);
            }
        }
        out.extend(next.iter().map(|v| Hay::new(v.iter().flat_map(|&i| pieces[i].iter().copied()).collect())));
        prev = next;
    }
    out
}

pub fn hays_for(sp: &SweepProfile, thorough: bool, prop: Prop) -> Vec<Hay> {
    if sp.profile.name == "P-longlook" {
        return longlook_hays();
    }
    if sp.profile.name == "P-lit" {
        let v = lit_hays();
        if prop == Prop::C13 {
            return v.into_iter().filter(|h| h.is_ascii()).collect();
        }
        return v;
    }
    if sp.profile.name == "P-1char" && prop != Prop::C13 {
        // counted loops need runs longer than their maximum: add runs of 4..=10 equal characters with
        // a different character before / after
        let mut v = enumerate::all_hays(&sp.alphabet, if thorough { sp.hay_thorough } else { sp.hay_quick });
        for n in 4..=10usize {
            for (c, d) in [('a', 'b'), ('é', 'a'), ('\u{1F600}', 'b')] {
                let run: Vec<u32> = std::iter::repeat(c as u32).take(n).collect();
                v.push(Hay::new(run.clone()));
                let mut x = run.clone();
                x.push(d as u32);
                v.push(Hay::new(x));
                let mut y = vec![d as u32];
                y.extend(run.iter());
                v.push(Hay::new(y));
            }
        }
        return v;
    }
    let mut alphabet = sp.alphabet.clone();
    if prop == Prop::C13 {
        // ASCII haystacks only; keep the ASCII fold partners of the non-ASCII pattern characters
        alphabet.retain(|&c| c < 128);
        if sp.flags.iter().any(|f| f.i) {
            for c in ['k', 'K', 's', 'S', '_'] {
                if !alphabet.contains(&(c as u32)) {
                    alphabet.push(c as u32);
                }
            }
        }
        for c in ['a', 'b'] {
            if alphabet.len() < 3 && !alphabet.contains(&(c as u32)) {
                alphabet.push(c as u32);
            }
        }
        if sp.profile.name == "P-utf8" || sp.profile.name == "P-1char" {
            alphabet.push(0x7F);
            alphabet.push(0);
        }
    }
    let mut v = enumerate::all_hays(&alphabet, if thorough { sp.hay_thorough } else { sp.hay_quick });
    if prop == Prop::C09 {
        // iterator state that survives from one match to the next needs a second match that repeats the
        // work of the first: every haystack of length 2 and 3 doubled (h h)
        let n = if thorough { sp.hay_thorough } else { sp.hay_quick };
        let extra: Vec<Hay> = v
            .iter()
            .filter(|h| (2..=3).contains(&h.cps.len()) && 2 * h.cps.len() > n)
            .map(|h| {
                let mut d = h.cps.clone();
                d.extend(h.cps.iter());
                Hay::new(d)
            })
            .collect();
        v.extend(extra);
    }
    v
}

/// Classes whose intervals share UTF-8 lead bytes or straddle lead-byte boundaries (the first-byte bitmap
/// of the start predicate): one or two items over points around every lead-byte change, plain and negated.
pub fn lead_byte_classes() -> (Vec<Node>, Vec<u32>) {
    let pts: Vec<u32> = vec![0x61, 0x7F, 0x80, 0xBF, 0xC0, 0x400, 0x401, 0x43F, 0x440, 0x44F, 0x47F, 0x480, 0x7FF, 0x800, 0xFFF, 0x1000, 0x1FFF, 0x2000, 0xFFFF, 0x10000, 0x3FFFF, 0x40000];
    let mut items: Vec<crate::ast::ClassItem> = pts.iter().map(|&c| crate::ast::ClassItem::Single(c)).collect();
    for (i, &a) in pts.iter().enumerate() {
        for &b in &pts[i + 1..] {
            items.push(crate::ast::ClassItem::Range(a, b));
        }
    }
    let mut out = Vec::new();
    for neg in [false, true] {
        for (i, a) in items.iter().enumerate() {
            out.push(Node::Class { negated: neg, items: vec![a.clone()] });
            for b in &items[i + 1..] {
                out.push(Node::Class { negated: neg, items: vec![a.clone(), b.clone()] });
            }
        }
    }
    let mut universe = pts.clone();
    universe.extend([0x62u32, 0x402, 0x410, 0x430, 0x441, 0x451, 0x500, 0x801, 0x1001, 0x3000, 0x10001, 0x20000, 0x40001, 0x10FFFF]);
    (out, universe)
}

/// Size-parameterised families: what small-scope enumeration cannot reach by construction (the 17th group, the
/// second 16-byte chunk, counts around 255 / 256, a class of a hundred intervals, a match at byte offset 64k+1).
/// Each template is instantiated at sizes around the powers of two; haystacks are built to sit on the edges.
pub fn scale_family(thorough: bool) -> Vec<(String, &'static str, Vec<String>)> {
    let mut sizes: Vec<usize> = vec![15, 16, 17, 31, 32, 33, 63, 64, 65, 127, 128, 129, 255, 256, 257];
    if thorough {
        sizes.extend([511, 512, 513, 1023, 1024, 1025]);
    }
    let lit = |n: usize| -> String { (0..n).map(|i| (b'a' + (i % 23) as u8) as char).collect() };
    let word = |i: usize| -> String { format!("w{}", (0..3).map(|k| (b'a' + ((i / 26usize.pow(k)) % 26) as u8) as char).collect::<String>()) };
    let mut out: Vec<(String, &'static str, Vec<String>)> = Vec::new();
    for &n in &sizes {
        let l = lit(n);
        let mut l_bad_end = l.clone();
        l_bad_end.pop();
        l_bad_end.push('!');
        let mut l_bad_mid: Vec<char> = l.chars().collect();
        l_bad_mid[n / 2] = '!';
        let l_bad_mid: String = l_bad_mid.into_iter().collect();
        let pads = ["", " ", "1234567", "12345678", "123456789", "ééé", "😀x"];
        let lit_hays: Vec<String> = pads.iter().flat_map(|p| vec![format!("{}{}", p, l), format!("{}{}{}", p, l, l), format!("{}{}x{}", p, l_bad_end, l), format!("{}{}", p, l_bad_mid)]).collect();
        out.push((l.clone(), "", lit_hays.clone()));
        out.push((l.clone(), "i", lit_hays.iter().map(|h| h.to_uppercase()).chain(lit_hays.iter().cloned()).collect()));
        out.push((format!("(?<={})x", l), "", vec![format!("{}x", l), format!("{}x {}x", l_bad_mid, l), format!("x{}x", l_bad_end), format!("é{}xx", l)]));
        out.push((format!("(?<!{})x", l), "", vec![format!("{}x", l), format!("{}x", l_bad_mid), "x".into()]));
        out.push((format!("x(?={})", l), "", vec![format!("x{}", l), format!("x{} x{}", l_bad_end, l)]));
        // n alternatives of distinct words
        let alts: String = (0..n).map(word).collect::<Vec<_>>().join("|");
        let alt_hays = vec![format!(" {} ", word(0)), format!(" {} {} ", word(n - 1), word(n / 2)), format!("{}{}", word(n), word(n - 1)), "w".into()];
        out.push((alts.clone(), "", alt_hays.clone()));
        out.push((format!("(?:{})+$", alts), "", alt_hays.clone()));
        out.push((format!("({})\\1", alts), "", vec![format!("{}{}", word(n - 1), word(n - 1)), format!("{}{}", word(n - 1), word(0))]));
        // n capture groups, backreference to the last and to the 10th; named likewise
        let letters = |i: usize| (b'a' + (i % 26) as u8) as char;
        let groups: String = (0..n).map(|i| format!("({})", letters(i))).collect();
        let text: String = (0..n).map(letters).collect();
        out.push((format!("{}\\{}", groups, n), "", vec![format!("{}{}", text, letters(n - 1)), format!("{}{}", text, letters(n)), format!("x{}{}", text, letters(n - 1))]));
        out.push((format!("{}\\10", groups), "", vec![format!("{}j", text), format!("{}a0", text)]));
        let ngroups: String = (0..n).map(|i| format!("(?<g{}>{})", i, letters(i))).collect();
        out.push((format!("{}\\k<g{}>", ngroups, n - 1), "", vec![format!("{}{}", text, letters(n - 1)), format!("{}{}", text, letters(n))]));
        let opt_groups: String = (0..n).map(|i| format!("({})?", letters(i))).collect();
        out.push((opt_groups, "", vec![text.clone(), text.chars().step_by(2).collect(), format!("{}{}", &text[n / 2..], text)]));
        // counts
        let a = |k: usize| "a".repeat(k);
        let count_hays = vec![a(n - 1), a(n), format!("{}b", a(n + 1)), format!("b{}b{}", a(n), a(n - 1)), format!("{}b", a(2 * n + 1))];
        for p in [format!("a{{{}}}", n), format!("a{{{},}}b", n), format!("a{{0,{}}}b", n), format!("a{{{}}}?a", n), format!("(a){{{}}}", n), format!("(?:a|b){{{}}}b", n), format!("[ab]{{{}}}b", n), format!(".{{{}}}b", n), format!("(?<=a{{{}}})b", n), format!("(?<=^.{{{}}})", n), format!("(a{{{}}})\\1", n), format!("a{{{},{}}}$", n - 1, n)] {
            out.push((p, "", count_hays.clone()));
        }
        out.push((format!("(?:ab){{{}}}c", n), "", vec![format!("{}c", "ab".repeat(n)), format!("{}c", "ab".repeat(n - 1)), format!("{}c", "ab".repeat(n + 1))]));
        out.push((format!("é{{{}}}", n), "u", vec!["é".repeat(n), "é".repeat(n - 1), format!("a{}", "é".repeat(n + 1))]));
        // a class of n intervals (every third code point from U+0100), plain and negated, in a loop
        let cls: String = (0..n).map(|i| format!("\\u{{{:X}}}-\\u{{{:X}}}", 0x100 + 3 * i, 0x101 + 3 * i)).collect();
        let c = |cp: usize| char::from_u32(cp as u32).unwrap();
        let cls_hay: String = [0x100, 0x101, 0x102, 0x103, 0x100 + 3 * (n - 1), 0x101 + 3 * (n - 1), 0x102 + 3 * (n - 1), 0x100 + 3 * n, 0xFF, 0x100 + 3 * (n / 2) + 2, 0x100 + 3 * (n / 2)].iter().map(|&x| c(x)).collect();
        out.push((format!("[{}]+", cls), "u", vec![cls_hay.clone(), format!("a{}", c(0x100 + 3 * (n - 1)))]));
        out.push((format!("[^{}]+", cls), "u", vec![cls_hay.clone()]));
        out.push((format!("[{}]", cls), "iu", vec![cls_hay.clone(), "ā".to_uppercase()]));
        // nesting (below the documented limit)
        if n <= 200 {
            out.push((format!("{}a{}", "(".repeat(n), ")".repeat(n)), "", vec!["a".into(), "ba".into()]));
            out.push((format!("{}a{}", "(?:".repeat(n), ")*".repeat(n)), "", vec!["aaa".into(), "".into()]));
            out.push((format!("{}a{}b", "(?=".repeat(n), ")".repeat(n)), "", vec!["ab".into(), "b".into()]));
        }
        // a quantified body nested n deep (below the documented nesting limit)
        if n <= 129 {
            let mut body = String::from("y");
            for _ in 0..n {
                body = format!("(?:q|{})", body);
            }
            let body = format!("(?:x|{})", body);
            out.push((format!("^{}{{2}}$", body), "", vec!["".into(), "xy".into(), "xq".into(), "x".into(), "xyq".into()]));
            out.push((format!("{}{{2,}}z", body), "", vec!["zxxz".into(), "xz".into(), "qyxz".into()]));
            out.push((format!("{}+?z", body), "", vec!["zxyz".into(), "z".into()]));
        }
        // quantified class strings over a long haystack that fails at the very end (each iteration must have
        // exactly one way to match a string: duplicate alternatives make the search exponential). Every pattern
        // here is linear by the specification's own search order - a set like \q{ab|a|b} would not be, and the
        // build variants without a fuel hook (C15's no-std worker) would then run it to the end of time
        if n <= 65 {
            for (p, unit) in [("^(?:[\\q{ab}\\q{ab|cd}])*$", "ab"), ("^(?:[\\q{ab}\\q{ab|cd}])*$", "cd"), ("^(?:[\\q{abc|de}])*$", "de"), ("^(?:[\\q{abc|de}])*$", "abc"), ("^\\p{Emoji_Keycap_Sequence}+$", "9\u{FE0F}\u{20E3}"), ("^(?:[\\p{Emoji_Keycap_Sequence}\\q{9\u{FE0F}\u{20E3}}])+$", "9\u{FE0F}\u{20E3}")] {
                out.push((p.to_string(), "v", vec![format!("{}!", unit.repeat(n)), unit.repeat(n)]));
            }
        }
        // long haystacks: loops that iterate n times, matches that start at offset n
        out.push(("(?:(a)|b)*c".into(), "", vec![format!("{}c", "ab".repeat(n)), format!("{}d", "ab".repeat(n))]));
        out.push(("(?:a|ab)*c".into(), "", vec![format!("{}c", "ab".repeat(n)), format!("{}c", "a".repeat(n))]));
        out.push(("a*?b".into(), "", vec![format!("{}b", a(n)), format!("{}c", a(n))]));
        out.push(("x\\d+".into(), "", vec![format!("{}x12", " ".repeat(n)), format!("{}x12 x3", "é".repeat(n)), format!("{}x", "x".repeat(n))]));
        out.push(("(?<=\\d{3})x|^y".into(), "m", vec![format!("{}123x\ny", "-".repeat(n)), format!("{}12x", "1".repeat(n))]));
        out.push(("\\bfoo\\b".into(), "i", vec![format!("{} FOO {}foo", "é ".repeat(n), "x".repeat(n))]));
        out.push(("(.)\\1".into(), "is", vec![format!("{}aA", "ab".repeat(n)), format!("{}{}k", "é".repeat(n), '\u{212A}')]));
    }
    out.extend(scale_family_fixed());
    out
}

/// The part of the size-parameterised families that does not scale with n (also used by C15's quick tier and C12).
pub fn scale_family_fixed() -> Vec<(String, &'static str, Vec<String>)> {
    let mut out: Vec<(String, &'static str, Vec<String>)> = Vec::new();
    // a quantified body nested just below / above 100 levels (the duplication depth limit of loop unrolling)
    for n in [98usize, 99, 100, 101, 102, 110, 125] {
        let mut body = String::from("y");
        for _ in 0..n {
            body = format!("(?:q|{})", body);
        }
        let body = format!("(?:x|{})", body);
        out.push((format!("^{}{{2}}$", body), "", vec!["".into(), "xy".into(), "xq".into(), "x".into(), "xyq".into()]));
        out.push((format!("{}{{2,}}z", body), "", vec!["zxxz".into(), "xz".into(), "qyxz".into()]));
        out.push((format!("{}+?z", body), "", vec!["zxyz".into(), "z".into()]));
    }
    // every kind of group opener before a group and a numeric / named reference just at or above the real group
    // count (the pre-scan that counts groups must read openers exactly as the parser does)
    for opener in ["(?:x)", "(?=x)", "(?!y)", "(?<=^)", "(?<!y)", "(?i:x)", "(?-i:x)", "(?s:.)", "(?m-s:x)", "(?<g>x)", "(x)", "[(]", "[[](x)", "\\(", "(?:(?i:x))"] {
        for tail in ["\\1", "\\2", "(b)\\1", "(b)\\2", "(b)\\3", "(?<n>b)\\k<n>", "(?<n>b)\\1\\2", "](b)\\2", "\\k<n>(?<n>b)"] {
            for fl in ["", "u", "i"] {
                out.push((format!("{}{}", opener, tail), fl, vec!["xb\u{1}".into(), "xbb".into(), "Xbb".into(), "xx".into(), "[xx".into(), "[x]bb".into(), "(b\u{2}".into(), "x]bb".into(), "xb\u{2}".into(), "xbxb".into(), "xk<n>b".into(), "".into()]));
            }
        }
    }
    // literals whose multi-byte character contains the point 16 (32) bytes before the END of the literal
    // (lookbehind literals are split into chunks from their end)
    for extra in [0usize, 16] {
        for sfx in 11..=16usize {
            for ch in ["é", "€", "😀"] {
                let l = format!("head:{}{}{}", ch, "d".repeat(sfx), "e".repeat(extra));
                let miss = format!("head:{}{}{}", "e", "d".repeat(sfx), "e".repeat(extra));
                let hays = vec![format!("{}!", l), format!("{}! {}!", miss, l), format!("x{}!!", l)];
                out.push((format!("(?<={})!", l), "", hays.clone()));
                out.push((format!("(?<!{})!", l), "", hays.clone()));
                out.push((format!("(?<=({}))!", l), "u", hays.clone()));
            }
        }
    }
    // classes of many disjoint ASCII intervals (alternate letters: 26 intervals; alternate printable characters:
    // 47), plain, negated and with one non-ASCII member, against every printable ASCII character
    {
        let alt_letters: String = ('A'..='Z').chain('a'..='z').step_by(2).collect();
        let alt_print: String = (0x21u8..=0x7E).step_by(2).map(|b| b as char).filter(|c| !"\\]^-[".contains(*c)).collect();
        let all_ascii: String = (0x20u8..=0x7E).map(|b| b as char).collect();
        for set in [alt_letters, alt_print] {
            for (open, tail, fl) in [("[", "]", ""), ("[^", "]", ""), ("[", "é]", ""), ("[^", "é]", "u"), ("[", "α]", "i"), ("[^", "]", "i")] {
                out.push((format!("{}{}{}", open, set, tail), fl, vec![all_ascii.clone(), format!("é{}α", all_ascii)]));
                out.push((format!("^(?:{}{}{})+$", open, set, tail), fl, vec![all_ascii.clone(), set.clone()]));
            }
        }
    }
    // caseless runs compared chunk-wise (a near miss in the middle of a 9..16-byte chunk), after one cased letter
    for n in [8usize, 9, 12, 15, 16, 17, 24, 31, 32, 33] {
        let run: String = (0..n).map(|i| "0123456789-:;= ".chars().nth(i % 15).unwrap()).collect();
        let mut hs: Vec<String> = vec![format!("k{}", run), format!("K{}x", run), format!("{}x", run)];
        for k in 0..n {
            let mut v: Vec<char> = run.chars().collect();
            v[k] = '#';
            hs.push(format!("k{} {}x", v.iter().collect::<String>(), v.iter().collect::<String>()));
        }
        out.push((format!("k{}", run.replace('-', "\\-")), "i", hs.clone()));
        out.push((format!("{}x", run.replace('-', "\\-")), "i", hs.clone()));
        out.push((run.replace('-', "\\-"), "", hs.clone()));
    }
    // literals whose multi-byte characters straddle the 16- and 32-byte chunk boundaries, forwards, in
    // lookbehinds (positive, negative, capturing) and case-insensitively
    for base in [0usize, 16] {
        for k in 12..=17usize {
            for ch in ["é", "€", "😀"] {
                let l = format!("{}{}ddd", "a".repeat(base + k), ch);
                let miss = format!("{}{}ddd", "a".repeat(base + k), "e");
                let hays = vec![format!("{}z", l), format!("{}z {}z", miss, l), format!("x{}z", l), format!("{}{}z", l, l)];
                out.push((format!("(?<={})z", l), "", hays.clone()));
                out.push((format!("(?<!{})z", l), "", hays.clone()));
                out.push((format!("(?<=({}))z", l), "u", hays.clone()));
                out.push((format!("{}z", l), "", hays.clone()));
                out.push((format!("{}z", l), "i", hays.iter().map(|h| h.to_uppercase()).collect()));
                out.push((format!("z(?={})", l), "", vec![format!("z{}", l), format!("z{}", miss)]));
            }
        }
    }
    out
}

/// Prefilter / alignment family: one pattern per start-predicate kind (one, two, three bytes, a first-byte
/// bitmap, a literal prefix, a non-ASCII literal) against haystacks whose first candidate sits after 0..=26
/// padding characters of each UTF-8 length; every start offset is explored, which also moves the search
/// pointer through every alignment.
pub fn alignment_family() -> Vec<(String, &'static str, Vec<String>)> {
    let pats: Vec<(&str, &str)> = vec![("[\\u0400-\\u04FF]", ""), ("[\\u0400-\\u04FF]+x", "u"), ("[a-dxyz]", ""), ("x", ""), ("[xy]", ""), ("[xyz]", ""), ("xy", ""), ("\\u0434", ""), ("[\\u0434\\u0436]x", ""), ("xy", "i"), ("[\\u0400-\\u04FF\\u{1F600}]x", "u"), ("(?:\\u0434|x)y", "")];
    let mut hays: Vec<String> = Vec::new();
    for pad in ["-", "é", "€", "😀", "€-", "😀é"] {
        for k in 0..=26usize {
            hays.push(format!("{}дxy", pad.repeat(k)));
            if k % 3 == 0 {
                hays.push(format!("{}xyд{}дx", pad.repeat(k), pad.repeat(k)));
            }
        }
    }
    pats.into_iter().map(|(p, f)| (p.to_string(), f, hays.clone())).collect()
}

/// Run one property over a list of profiles. Returns merged statistics.
pub fn run(run: &mut Run, prop: Prop, profile_names: &[&str]) -> Stats {
    let thorough = run.thorough();
    let cfg = Cfg { pid: prop.id(), sig: shape, prop, fuel: if thorough { 4_000_000 } else { 600_000 }, ref_limit: 3_000_000, k_ratio: 64, sparse_starts: false };
    let mut total = drive(run, prop.id(), profile_names, &|sp, th| hays_for(sp, th, prop), &|ast, f, hays, known, st| eval_pattern(&cfg, ast, f, hays, known, st));
    if matches!(prop, Prop::C01 | Prop::C02 | Prop::C03 | Prop::C13) && std::env::var("VERIF_PROFILES").map(|v| v.is_empty() || v.contains("tokens")).unwrap_or(true) {
        // token strings of length 5 (46.8 million) are read against the reference by C01 and judged by C08;
        // the differential sweeps stop at 4
        let n = if thorough { if prop == Prop::C01 { 5 } else { 4 } } else { if prop == Prop::C01 { 4 } else { 3 } };
        let t = drive_tokens(run, prop.id(), n, &|ast, pat, f, hays, known, st| eval_pattern_text(&cfg, ast, pat, f, hays, known, st));
        total = total.merge(t);
        if prop == Prop::C01 {
            let t = drive_focus(run, prop.id(), if thorough { 9 } else { 8 }, &|ast, pat, f, hays, known, st| eval_pattern_text(&cfg, ast, pat, f, hays, known, st));
            total = total.merge(t);
        }
    }
    if std::env::var("VERIF_PROFILES").map(|v| v.is_empty() || v.contains("scale")).unwrap_or(true) {
        let fam = scale_family(thorough);
        let known = &run.known;
        let cfg = Cfg { sparse_starts: true, fuel: 4_000_000, ..cfg };
        let cfg_full = Cfg { sparse_starts: false, fuel: 4_000_000, ..cfg };
        let nscale = fam.len();
        let fam: Vec<(String, &'static str, Vec<String>, bool)> = fam.into_iter().map(|(p, f, h)| (p, f, h, true)).chain(alignment_family().into_iter().map(|(p, f, h)| (p, f, h, false))).collect();
        let t0 = std::time::Instant::now();
        let t = fam
            .par_iter()
            .map(|(p, f, hs, sparse)| (p, f, hs, if *sparse { &cfg } else { &cfg_full }))
            .fold(Stats::default, |mut st, (p, f, hs, cfg)| {
                let pat: Vec<u32> = p.chars().map(|c| c as u32).collect();
                let fl = Flags::parse(f);
                let hays: Vec<Hay> = hs.iter().filter(|h| prop != Prop::C13 || h.is_ascii()).map(|h| Hay::new(h.chars().map(|c| c as u32).collect())).collect();
                match crate::refparse::parse(&pat, fl) {
                    Ok(ast) => eval_pattern_text(cfg, &ast, pat, fl, &hays, known, &mut st),
                    Err(_) => st.add("patterns_outside_language", 1), // acceptance is C08's matter
                }
                st
            })
            .reduce(Stats::default, Stats::merge);
        println!("  {} size-parameterised + alignment families: patterns={}+{} cases={} violations={} ({:.1}s)", prop.id(), nscale, fam.len() - nscale, t.get("evaluations"), t.total_violations(), t0.elapsed().as_secs_f64());
        run.extra.push(("size_parameterised_family".into(), J::obj().set("patterns", J::u(fam.len() as u64)).set("evaluations", J::u(t.get("evaluations"))).set("sizes", J::s("15 16 17 31 32 33 63 64 65 127 128 129 255 256 257 (thorough: + 511..513, 1023..1025)"))));
        total = total.merge(t);
    }
    if prop == Prop::C04 && std::env::var("VERIF_PROFILES").map(|v| v.is_empty()).unwrap_or(true) {
        let (classes, universe) = lead_byte_classes();
        let hays: Vec<Hay> = universe.iter().map(|&c| Hay::new(vec![c])).chain(universe.iter().map(|&c| Hay::new(vec![0x20, c, 0x61]))).collect();
        let known = &run.known;
        let fl = Flags::parse("u");
        let t = classes
            .par_iter()
            .fold(Stats::default, |mut st, c| {
                eval_pattern(&cfg, c, fl, &hays, known, &mut st);
                let plus = Node::quant(c.clone(), 1, None, true);
                eval_pattern(&cfg, &plus, fl, &hays, known, &mut st);
                st
            })
            .reduce(Stats::default, Stats::merge);
        println!("  C04 lead-byte class family: classes={} cases={} violations={}", classes.len(), t.get("evaluations"), t.total_violations());
        run.extra.push(("lead_byte_class_family".into(), J::obj().set("classes", J::u(classes.len() as u64)).set("evaluations", J::u(t.get("evaluations")))));
        total = total.merge(t);
    }
    if prop == Prop::C13 {
        // the complete ASCII alphabet: every ASCII string of length <= 2 (16,513 strings) against a menu
        // of patterns whose ASCII-mode implementation is separate code (fold, word chars, classes)
        let mut hays: Vec<Hay> = vec![Hay::new(vec![])];
        for a in 0..128u32 {
            hays.push(Hay::new(vec![a]));
            for b in 0..128u32 {
                hays.push(Hay::new(vec![a, b]));
            }
        }
        let menu: Vec<(&str, &str)> = vec![
            ("(.)\\1", "is"), ("(.)\\1", "ius"), ("(.)\\1", "ivs"), ("(.)\\1", "s"), ("(?<=\\1(.))", "ius"), ("\\b", ""), ("\\B", ""), ("\\b", "iu"), ("\\w", ""), ("\\W", "i"), ("\\w", "iu"), ("\\d", ""), ("\\s", ""), ("\\S", "u"), (".", ""), (".", "s"),
            ("[^a]", "i"), ("[a-z]", "i"), ("[\\x00-\\x7f]", ""), ("[^\\x00-\\x7f]", ""), ("\\x7f", ""), ("\\0", ""), ("k", "iu"), ("[k]", "iu"), ("s", "i"), ("\\u017f", "iu"), ("\\u212a", "iu"), ("^.$", "m"), ("^", "m"), ("$", "m"), ("a|\\W", "i"),
            ("\\w+", ""), ("\\W\\b", ""), ("(?=\\w)", ""), ("(?<!\\w)", "i"), ("[\\W\\d]", "i"), ("\\p{ASCII}", "u"), ("\\P{Lu}", "iu"), ("\\p{L}", "u"),
        ];
        let known = &run.known;
        let t = menu
            .par_iter()
            .fold(Stats::default, |mut st, (p, f)| {
                let pat: Vec<u32> = p.chars().map(|c| c as u32).collect();
                let fl = Flags::parse(f);
                match crate::refparse::parse(&pat, fl) {
                    Ok(ast) => eval_pattern_text(&cfg, &ast, pat, fl, &hays, known, &mut st),
                    Err(e) => st.error(format!("C13 menu pattern {} does not parse: {}", p, e)),
                }
                st
            })
            .reduce(Stats::default, Stats::merge);
        eprintln!("  C13 all ASCII strings <= 2: patterns={} cases={} violations={}", menu.len(), t.get("evaluations"), t.total_violations());
        run.extra.push(("all_ascii_strings".into(), J::obj().set("patterns", J::u(menu.len() as u64)).set("haystacks", J::u(hays.len() as u64)).set("evaluations", J::u(t.get("evaluations")))));
        total = total.merge(t);
    }
    if prop == Prop::C05 {
        // one input per shortcut visible in the code: bounded loops over nullable bodies with large
        // maxima on long runs (the empty-iteration cut-off is what keeps these linear)
        let (pats, hays) = counted_nullable_family(thorough);
        let known = &run.known;
        let t = pats
            .par_iter()
            .fold(Stats::default, |mut st, ast| {
                eval_pattern(&cfg, ast, Flags::default(), &hays, known, &mut st);
                st
            })
            .reduce(Stats::default, Stats::merge);
        eprintln!("  C05 counted-nullable family: patterns={} cases={} violations={}", pats.len(), t.get("evaluations"), t.total_violations());
        run.extra.push(("counted_nullable_family".into(), J::obj().set("patterns", J::u(pats.len() as u64)).set("haystacks", J::u(hays.len() as u64)).set("evaluations", J::u(t.get("evaluations")))));
        total = total.merge(t);
    }
    if total.get("patterns_skipped_after_violation_budget") > 0 {
        run.caps.push(format!("exploration stopped early: {} patterns skipped after the violation budget was spent", total.get("patterns_skipped_after_violation_budget")));
    }
    if total.get("undecided_fuel") > 0 && prop != Prop::C05 {
        run.caps.push(format!("{} searches cut by the fuel horizon (counted as undecided, see C05)", total.get("undecided_fuel")));
    }
    if total.get("undecided_reference_too_expensive") > 0 {
        run.caps.push(format!("{} searches undecided: K x the reference's own steps exceeds the fuel cap (legitimately expensive patterns)", total.get("undecided_reference_too_expensive")));
    }
    if total.get("reference_cut") > 0 {
        run.caps.push(format!("{} haystacks skipped because the reference exceeded its own step budget", total.get("reference_cut")));
    }
    total
}

/// Per-property trimming of profile sizes in the quick tier (keeps every quick check under a minute;
/// the thorough tier uses the full sizes everywhere).
pub fn quick_size_adjust(pid: &str, profile: &str) -> usize {
    match (pid, profile) {
        ("C05", "P-1char") => 1,
        ("C02", "P-anchor") | ("C03", "P-anchor") | ("C02", "P-dupref") | ("C03", "P-dupref") | ("C02", "P-named") | ("C03", "P-named") => 1,
        ("C09", "P-1char") => 1,
        ("C09", "P-anchor") | ("C09", "P-capback") | ("C09", "P-vset") => 1,
        ("C02", "P-icaseback") | ("C03", "P-icaseback") => 1,
        ("C16", "P-fail") => 0,
        _ => 0,
    }
}

/// The thorough tier of the differential sweeps stays below about half an hour per check: the largest
/// profiles are explored one size deeper by C01 (one executor, reference model) only.
pub fn thorough_size_adjust(pid: &str, profile: &str) -> usize {
    match (pid, profile) {
        ("C02" | "C03" | "C09" | "C13", "P-named" | "P-dupref") => 1,
        _ => 0,
    }
}

pub type EvalFn<'a> = &'a (dyn Fn(&Node, Flags, &[Hay], &Known, &mut Stats) + Sync);
pub type HaysFn<'a> = &'a dyn Fn(&SweepProfile, bool) -> Vec<Hay>;

/// Generic driver: every AST of every named profile (smallest first; sizes below the top are stored
/// and deduplicated, the top size is streamed) x the profile's flags, evaluated in parallel.
pub fn drive(run: &mut Run, pid: &str, profile_names: &[&str], hays_fn: HaysFn, eval: EvalFn) -> Stats {
    let thorough = run.thorough();
    let mut total = Stats::default();
    let mut per_profile = Vec::new();
    for name in profile_names {
        let sp = profiles::by_name(name).expect("profile");
        let bump: usize = std::env::var("VERIF_SIZE_BUMP").ok().and_then(|s| s.parse().ok()).unwrap_or(0);
        let max_size = (if thorough { sp.size_thorough - thorough_size_adjust(pid, sp.profile.name) } else { sp.size_quick - quick_size_adjust(pid, sp.profile.name).min(sp.size_quick - 1) }) + bump;
        let hays = hays_fn(&sp, thorough);
        let t0 = std::time::Instant::now();
        let stored = enumerate::enumerate(&sp.profile, max_size.saturating_sub(1).max(1));
        let known = &run.known;
        let mut pst = Stats::default();
        for n in 1..=max_size {
            let s = if n < max_size || max_size == 1 {
                stored[n]
                    .par_iter()
                    .fold(Stats::default, |mut st, ast| {
                        for &f in &sp.flags {
                            eval(ast, f, &hays, known, &mut st);
                        }
                        st
                    })
                    .reduce(Stats::default, Stats::merge)
            } else {
                let units = enumerate::outer_units(&sp.profile, &stored, n);
                units
                    .par_iter()
                    .fold(Stats::default, |mut st, unit| {
                        enumerate::stream_unit(&sp.profile, &stored, n, *unit, &mut |ast: Node| {
                            for &f in &sp.flags {
                                eval(&ast, f, &hays, known, &mut st);
                            }
                        });
                        st
                    })
                    .reduce(Stats::default, Stats::merge)
            };
            pst = pst.merge(s);
        }
        per_profile.push(
            J::obj()
                .set("profile", J::s(sp.profile.name))
                .set("max_ast_size", J::u(max_size as u64))
                .set("flags", J::Arr(sp.flags.iter().map(|f| J::s(&f.to_string())).collect()))
                .set("haystacks", J::u(hays.len() as u64))
                .set("patterns_generated", J::u(pst.get("patterns_generated")))
                .set("patterns_evaluated", J::u(pst.get("patterns_evaluated")))
                .set("evaluations", J::u(pst.get("evaluations")))
                .set("nontrivial", J::u(pst.get("nontrivial")))
                .set("violations", J::u(pst.total_violations()))
                .set("wall_s", J::Float((t0.elapsed().as_secs_f64() * 100.0).round() / 100.0)),
        );
        eprintln!(
            "  {} {}: size<={} patterns={} evaluated={} cases={} violations={} known={} ({:.1}s)",
            pid,
            sp.profile.name,
            max_size,
            pst.get("patterns_generated"),
            pst.get("patterns_evaluated"),
            pst.get("evaluations"),
            pst.total_violations(),
            pst.known.values().map(|k| k.0).sum::<u64>(),
            t0.elapsed().as_secs_f64()
        );
        total = total.merge(pst);
    }
    run.extra.push(("profiles".into(), J::Arr(per_profile)));
    total
}

/// Focused token strings read semantically (C01): every string over {[ ] ( ) a \ 1} up to a length bound that
/// contains a group and a backslash (the pre-scan that counts groups decides how \1 is read: backreference or
/// legacy octal escape) and that the reference parser accepts, against every haystack over {a [ ] U+0001}.
pub fn drive_focus(run: &mut Run, pid: &str, max_len: usize, eval: &(dyn Fn(&Node, Vec<u32>, Flags, &[Hay], &Known, &mut Stats) + Sync)) -> Stats {
    use crate::refparse;
    let toks: Vec<u32> = "[]()a\\1".chars().map(|c| c as u32).collect();
    let total = crate::c08::total_strings(toks.len() as u64, max_len);
    let hays = enumerate::all_hays(&[0x61, 0x5B, 0x5D, 0x1], 3);
    let chunk = 4096u64;
    let nchunks = (total + chunk - 1) / chunk;
    let known = &run.known;
    let t0 = std::time::Instant::now();
    let st = (0..nchunks)
        .into_par_iter()
        .fold(Stats::default, |mut st, ci| {
            for idx in ci * chunk..((ci + 1) * chunk).min(total) {
                let pat = crate::c08::token_string(&toks, idx);
                if pat.len() < 5 || !pat.contains(&0x28) || !pat.contains(&0x5C) || !pat.contains(&0x5B) {
                    continue;
                }
                for f in ["", "u"] {
                    let fl = Flags::parse(f);
                    st.add("patterns_generated", 1);
                    let Ok(ast) = refparse::parse(&pat, fl) else {
                        st.add("patterns_outside_language", 1);
                        continue;
                    };
                    eval(&ast, pat.clone(), fl, &hays, known, &mut st);
                }
            }
            st
        })
        .reduce(Stats::default, Stats::merge);
    println!("  {} focused token strings <= {}: evaluated={} cases={} violations={} ({:.1}s)", pid, max_len, st.get("patterns_evaluated"), st.get("evaluations"), st.total_violations(), t0.elapsed().as_secs_f64());
    run.extra.push(("focused_token_strings".into(), J::obj().set("alphabet", J::s("[ ] ( ) a \\ 1")).set("max_length", J::u(max_len as u64)).set("patterns_evaluated", J::u(st.get("patterns_evaluated"))).set("evaluations", J::u(st.get("evaluations")))));
    st
}

/// Token-string patterns: every string over the token alphabet up to a length bound that the
/// reference parser accepts is read by it, and the resulting AST is the reference for the search.
/// This covers the subject parser's *reading* of escapes, octal forms, braces, class syntax.
pub fn drive_tokens(run: &mut Run, pid: &str, max_len: usize, eval: &(dyn Fn(&Node, Vec<u32>, Flags, &[Hay], &Known, &mut Stats) + Sync)) -> Stats {
    use crate::refparse;
    let toks: Vec<u32> = crate::c07::TOKENS.chars().map(|c| c as u32).collect();
    let total = crate::c08::total_strings(toks.len() as u64, max_len);
    let mut hays = enumerate::all_hays(&enumerate::chars("abk1-0"), 2);
    hays.extend(enumerate::all_hays(&enumerate::chars("a1\n"), 3).into_iter().filter(|h| h.cps.len() == 3));
    hays.push(Hay::new(enumerate::chars("\u{1}a\u{8}u{")));
    let chunk = 2048u64;
    let nchunks = (total + chunk - 1) / chunk;
    let known = &run.known;
    let t0 = std::time::Instant::now();
    let st = (0..nchunks)
        .into_par_iter()
        .fold(Stats::default, |mut st, ci| {
            for idx in ci * chunk..((ci + 1) * chunk).min(total) {
                let pat = crate::c08::token_string(&toks, idx);
                for f in ["", "u", "v", "i", "ms"] {
                    let fl = Flags::parse(f);
                    st.add("patterns_generated", 1);
                    let Ok(ast) = refparse::parse(&pat, fl) else {
                        st.add("patterns_outside_language", 1);
                        continue;
                    };
                    // known finding KF-legacy-u-brace: in legacy mode the subject reads \u{hex} as a
                    // code point; where that reading differs, it is the reference for this pattern
                    let mut ast = ast;
                    if !fl.unicode_mode() {
                        if let Ok(alt) = refparse::parse_compat(&pat, fl, refparse::Compat { legacy_u_brace: true }) {
                            if alt != ast {
                                let case = J::obj().set("pattern", J::s(&print::show(&pat))).set("flags", J::s(f)).set("compat", J::s("legacy-u-brace"));
                                st.violation(known, pid, "known", pat.len(), case);
                                ast = alt;
                            }
                        }
                    }
                    eval(&ast, pat.clone(), fl, &hays, known, &mut st);
                }
            }
            st
        })
        .reduce(Stats::default, Stats::merge);
    eprintln!(
        "  {} token strings <= {}: strings={} evaluated={} cases={} violations={} known={} ({:.1}s)",
        pid,
        max_len,
        total,
        st.get("patterns_evaluated"),
        st.get("evaluations"),
        st.total_violations(),
        st.known.values().map(|k| k.0).sum::<u64>(),
        t0.elapsed().as_secs_f64()
    );
    run.extra.push(("token_strings".into(), J::obj().set("max_len", J::u(max_len as u64)).set("strings", J::u(total)).set("patterns_evaluated", J::u(st.get("patterns_evaluated"))).set("evaluations", J::u(st.get("evaluations"))).set("haystacks", J::u(hays.len() as u64))));
    st
}

/// Bounded quantifiers with large maxima over bodies that can match the empty string, with tails that
/// force backtracking through the loop, on runs of 4..=20 characters.
pub fn counted_nullable_family(thorough: bool) -> (Vec<Node>, Vec<Hay>) {
    let a = || Node::Char('a' as u32);
    let b = || Node::Char('b' as u32);
    let bodies: Vec<Node> = vec![
        Node::Alt(vec![a(), Node::Empty]),
        Node::Alt(vec![Node::Empty, a()]),
        Node::group(Node::quant(a(), 0, Some(1), true)),
        Node::quant(a(), 0, None, true),
        Node::group(Node::Alt(vec![a(), Node::Empty])),
    ];
    let ns: Vec<u32> = if thorough { vec![4, 8, 12, 16, 20, 24, 32, 40, 64] } else { vec![4, 8, 12, 16, 24, 40] };
    let mut pats = Vec::new();
    for body in &bodies {
        for &n in &ns {
            for (min, greedy) in [(0u32, true), (3, true), (0, false)] {
                let lp = Node::quant(body.clone(), min, Some(n), greedy);
                pats.push(Node::Cat(vec![lp.clone(), b()]));
                pats.push(Node::Cat(vec![lp.clone(), Node::quant(a(), 12, Some(12), true), b()]));
                pats.push(Node::Cat(vec![Node::look(true, false, Node::Cat(vec![Node::Char('c' as u32), lp.clone()])), Node::Char('d' as u32)]));
                pats.push(Node::Cat(vec![Node::group(lp.clone()), Node::BackRef(1), b()]));
            }
        }
    }
    let mut hays = Vec::new();
    for k in [0usize, 1, 4, 8, 12, 16, 20] {
        let run: Vec<u32> = std::iter::repeat('a' as u32).take(k).collect();
        hays.push(Hay::new(run.clone()));
        let mut x = run.clone();
        x.push('b' as u32);
        hays.push(Hay::new(x));
        let mut y = vec!['c' as u32];
        y.extend(run.iter());
        y.push('d' as u32);
        hays.push(Hay::new(y));
        let mut z = run.clone();
        z.push('c' as u32);
        hays.push(Hay::new(z));
    }
    (pats, hays)
}
