//! C06: memory safety, no panics, valid ranges - monitors on an exhaustive bounded space, run in several
//! build variants (release, debug-assertions, safe-indexing) whose results must also coincide.
use crate::ast::*;
use crate::enumerate::{self, Hay};
use crate::json::{self, J};
use crate::print;
use crate::profiles;
use crate::report::{Run, Stats};
use crate::subject::{self, CompileOutcome, Mode, Outcome, SMatch};
use rayon::prelude::*;
use std::collections::HashMap;
use std::hash::{Hash, Hasher};

pub fn h64<T: Hash>(t: &T) -> u64 {
    let mut h = std::collections::hash_map::DefaultHasher::new();
    t.hash(&mut h);
    h.finish()
}

/// When set, every result of the pattern with this key is recorded (used to locate a difference
/// between build variants).
pub static FOCUS: std::sync::atomic::AtomicU64 = std::sync::atomic::AtomicU64::new(0);
pub static FOCUS_LINES: std::sync::Mutex<Vec<String>> = std::sync::Mutex::new(Vec::new());

#[derive(Default)]
pub struct Acc {
    pub st: Stats,
    pub digests: Vec<(u64, u64)>,
}

impl Acc {
    pub fn merge(mut self, o: Acc) -> Acc {
        self.st = self.st.merge(o.st);
        self.digests.extend(o.digests);
        self
    }
}

pub fn variant_name() -> String {
    let mut v = Vec::new();
    if cfg!(debug_assertions) {
        v.push("debug-assertions");
    }
    if cfg!(feature = "index-positions") {
        v.push("index-positions");
    }
    if cfg!(feature = "prohibit-unsafe") {
        v.push("prohibit-unsafe");
    }
    if cfg!(feature = "utf16") {
        v.push("utf16");
    }
    if v.is_empty() {
        v.push("release-default");
    }
    v.join("+")
}

pub fn variant_name_full() -> String {
    let mut v = variant_name();
    if !cfg!(feature = "std") {
        v.push_str("+no-std(alloc)");
    }
    v
}

fn check_ranges(seq: &[SMatch], text: &str, need_boundary: bool) -> Option<String> {
    let len = text.len();
    for m in seq {
        let mut rs = vec![(m.start, m.end)];
        rs.extend(m.caps.iter().flatten().copied());
        for (a, b) in rs {
            if !(a <= b && b <= len) {
                return Some(format!("range {}..{} violates 0 <= start <= end <= len ({})", a, b, len));
            }
            if need_boundary && (!text.is_char_boundary(a) || !text.is_char_boundary(b)) {
                return Some(format!("range {}..{} is not on character boundaries", a, b));
            }
        }
    }
    None
}

/// Set by C15's quick tier: the six build variants skip the size-parameterised family (C06 explores it in
/// three builds; C15 keeps the alignment family, which is where the build variants differ in code).
pub static LIGHT: std::sync::atomic::AtomicBool = std::sync::atomic::AtomicBool::new(false);

pub fn eval_one(profile: &str, ast: &Node, flags: Flags, hays: &[Hay], run: &Run, acc: &mut Acc) {
    let st = &mut acc.st;
    st.add("patterns_generated", 1);
    if ast.validate(flags).is_err() {
        return;
    }
    let pat = print::print(ast);
    crate::subject::set_case_desc(format!("/{}/{} (C06/C15)", print::show(&pat), flags.to_string()));
    let mut digest: u64 = 0;
    let mut undecided = false;
    let focus = FOCUS.load(std::sync::atomic::Ordering::Relaxed);
    let focused = focus != 0 && focus == h64(&(profile, &pat, flags));
    if focused {
        FOCUS_LINES.lock().unwrap().push(format!("PATTERN profile={} /{}/{} cps={:?}", profile, print::show(&pat), flags.to_string(), pat));
    }
    for no_opt in [false, true] {
        let re = match subject::compile(&pat, flags, no_opt) {
            CompileOutcome::Ok(r) => r,
            CompileOutcome::Err(_) => continue,
            CompileOutcome::Panic(m) => {
                let case = J::obj().set("kind", J::s("compile")).set("pattern", J::s(&print::show(&pat))).set("pattern_cps", J::cps(&pat)).set("flags", J::s(&flags.to_string())).set("variant", J::s(&variant_name())).set("what", J::s("panic during compilation")).set("got", J::s(&m));
                st.violation(&run.known, "C06", &format!("panic during compilation [{}]", variant_name()), pat.len(), case);
                continue;
            }
        };
        st.add("patterns_evaluated", 1);
        for hay in hays {
            let text = hay.text.as_str();
            let modes: [(Mode, &str); 4] = [(subject::BT, "backtrack"), (subject::PIKE, "pikevm"), (subject::BT_ASCII, "backtrack-ascii"), (subject::PIKE_ASCII, "pikevm-ascii")];
            for (mode, mname) in modes {
                // UTF-8 entry points: every char boundary, len, len+1. ASCII entry points accept any
                // byte offset (documented precondition: ASCII text; on other text only absence of
                // out-of-range access is demanded).
                let mut starts: Vec<usize> = if mode.ascii { (0..=text.len() + 1).collect() } else { hay.offs.iter().copied().chain(std::iter::once(text.len() + 1)).collect() };
                if profile.starts_with("scale") && starts.len() > 14 {
                    // long haystacks of the size-parameterised families: both ends, the 8 / 16 / 32 marks, the middle
                    let n = starts.len();
                    starts = starts.iter().enumerate().filter(|(i, _)| *i <= 2 || *i + 4 >= n || *i == n / 2 || matches!(*i, 7 | 8 | 9 | 15 | 16 | 17 | 31 | 32 | 33)).map(|(_, s)| *s).collect();
                }
                for bs in starts {
                    st.add("evaluations", 1);
                    st.add("validated", 1);
                    let r = if mode == subject::BT { subject::api_find_n(&re, text, bs, 64, 3_000_000) } else { subject::find_n(&re, mode, text, bs, 64, 3_000_000) };
                    st.add("transitions", subject::steps());
                    match &r {
                        Outcome::Ok(seq) => {
                            if !seq.is_empty() {
                                st.add("nontrivial", 1);
                            }
                            let need_boundary = !mode.ascii || hay.is_ascii();
                            if let Some(bad) = check_ranges(seq, text, need_boundary) {
                                let cl = format!("invalid range reported ({}) [{}]", mname, variant_name());
                                st.violation(&run.known, "C06", &cl, pat.len() * 8 + hay.cps.len(), crate::sweep::case_json(&pat, flags, hay, bs, &bad, J::Null, crate::sweep::seq_json(seq)).set("mode", J::s(mname)).set("variant", J::s(&variant_name())));
                            } else if !seq.is_empty() && !hay.is_ascii() {
                                st.sample(|| crate::sweep::case_json(&pat, flags, hay, bs, "no panic, ranges valid", J::Null, crate::sweep::seq_json(seq)).set("mode", J::s(mname)).set("variant", J::s(&variant_name())));
                            }
                            // results of the ASCII entry points on non-ASCII text are outside their
                            // documented precondition and are not compared across variants
                            if !mode.ascii || hay.is_ascii() {
                                digest = digest.wrapping_add(h64(&(no_opt, mname, &hay.cps, bs, seq)));
                            }
                            if focused {
                                FOCUS_LINES.lock().unwrap().push(format!("no_opt={} {} hay={:?} start={} -> {:?}", no_opt, mname, print::show(&hay.cps), bs, seq));
                            }
                        }
                        Outcome::Fuel => {
                            st.add("undecided_fuel", 1);
                            // a build without the step hook answers this case, a build with it does not: the
                            // pattern's digest is not comparable across variants
                            undecided = true;
                        }
                        Outcome::Panic(m) => {
                            let where_ = m.rsplit(" at ").next().unwrap_or("").to_string();
                            let cl = format!("panic during search at {} ({}) [{}]", where_, mname, variant_name());
                            st.violation(&run.known, "C06", &cl, pat.len() * 8 + hay.cps.len(), crate::sweep::case_json(&pat, flags, hay, bs, "panic during search", J::Null, J::s(m)).set("mode", J::s(mname)).set("variant", J::s(&variant_name())).set("no_opt", J::Bool(no_opt)));
                            digest = digest.wrapping_add(h64(&(no_opt, mname, &hay.cps, bs, "PANIC")));
                        }
                    }
                }
            }
        }
    }
    acc.digests.push((h64(&(profile, &pat, flags)), if undecided { UNDECIDED } else { digest }));
}

/// Digest value of a pattern for which some case ran out of fuel in this build (excluded from the comparison).
pub const UNDECIDED: u64 = u64::MAX;

const PROFILES: [(&str, usize, usize); 10] = [("dotcap", 4, 6), ("utf8", 3, 4), ("onechar", 3, 3), ("look", 3, 4), ("lit", 2, 3), ("icase", 2, 3), ("core", 4, 5), ("vset", 2, 3), ("icaseback", 6, 7), ("fail", 8, 9)];

pub fn explore(run: &Run) -> (Stats, Vec<(u64, u64)>) {
    let thorough = run.thorough();
    let mut total = Acc::default();
    for (name, sq, st_) in PROFILES {
        let sp = profiles::by_name(name).unwrap();
        let size = if thorough { st_ } else { sq };
        // haystacks over all four UTF-8 lengths (every adjacency), empty, both ends
        let hays: Vec<Hay> = if name == "lit" {
            crate::sweep::lit_hays().into_iter().filter(|h| h.cps.len() <= 20).collect()
        } else if name == "icaseback" {
            // every pair of fold partners, and the triples that start with an ASCII or a supplementary letter
            enumerate::all_hays(&sp.alphabet, 3).into_iter().filter(|h| h.cps.len() <= 2 || h.cps[0] == 'k' as u32 || h.cps[0] == 0x10428).collect()
        } else if name == "fail" {
            enumerate::all_hays(&sp.alphabet, sp.hay_quick)
        } else {
            let mut alphabet: Vec<u32> = vec!['a' as u32, 'é' as u32, '€' as u32, 0x1F600];
            for &c in &sp.alphabet {
                if !alphabet.contains(&c) && alphabet.len() < 6 {
                    alphabet.push(c);
                }
            }
            enumerate::all_hays(&alphabet, if thorough { 3 } else { 2 }).into_iter().chain(enumerate::all_hays(&['a' as u32, 0x1F600, 'é' as u32], 3).into_iter().filter(|h| h.cps.len() == 3)).collect()
        };
        let by = enumerate::enumerate(&sp.profile, size);
        let t_prof = std::time::Instant::now();
        let before = total.st.get("evaluations");
        for list in &by {
            let a = list
                .par_iter()
                .fold(Acc::default, |mut acc, ast| {
                    for &f in &sp.flags {
                        eval_one(name, ast, f, &hays, run, &mut acc);
                    }
                    acc
                })
                .reduce(Acc::default, Acc::merge);
            total = total.merge(a);
        }
        if std::env::var("VERIF_VERBOSE").is_ok() {
            eprintln!("  C06 {} size<={} cases={} ({:.1}s)", name, size, total.st.get("evaluations") - before, t_prof.elapsed().as_secs_f64());
        }
    }
    // classes on the encoding-length boundaries (a class lowered to bytes must not match inside a character),
    // as an atom, captured inside a lookbehind, and after a character inside a lookbehind
    {
        let (classes, _) = crate::c12::boundary_classes();
        let uni = [0x61u32, 0x7F, 0x80, 0xC2, 0x7FF, 0x800, 0x4E00, 0xFFFF, 0x10000, 0x10FFFF];
        let mut hays: Vec<Hay> = enumerate::all_hays(&uni, 1);
        for &c in &uni {
            hays.push(Hay::new(vec![c, 0x61]));
            hays.push(Hay::new(vec![0x80, c]));
            hays.push(Hay::new(vec![0x4E00, c]));
        }
        let jobs: Vec<Node> = classes
            .iter()
            .flat_map(|c| {
                vec![
                    c.clone(),
                    Node::Cat(vec![Node::look(true, false, Node::group(c.clone())), Node::Char(0x61)]),
                    Node::look(true, false, Node::Cat(vec![Node::Dot, c.clone()])),
                ]
            })
            .collect();
        let a = jobs
            .par_iter()
            .fold(Acc::default, |mut acc, ast| {
                for f in ["", "u"] {
                    eval_one("boundary-classes", ast, Flags::parse(f), &hays, run, &mut acc);
                }
                acc
            })
            .reduce(Acc::default, Acc::merge);
        total = total.merge(a);
    }
    // the size-parameterised families of the sweeps (long literals, many groups / alternatives, counts
    // around 255 / 256, classes of a hundred intervals, long haystacks)
    {
        let light = LIGHT.load(std::sync::atomic::Ordering::Relaxed);
        let mut fam = if light { crate::sweep::scale_family_fixed() } else { crate::sweep::scale_family(thorough) };
        fam.extend(crate::sweep::alignment_family());
        // the same pattern occurs at several sizes with different haystacks: the digest key carries the entry's
        // index, so that every (pattern, haystack list) has its own digest
        let fam: Vec<(usize, (String, &'static str, Vec<String>))> = fam.into_iter().enumerate().collect();
        let a = fam
            .par_iter()
            .fold(Acc::default, |mut acc, (i, (p, f, hs))| {
                let pat: Vec<u32> = p.chars().map(|c| c as u32).collect();
                let fl = Flags::parse(f);
                if let Ok(ast) = crate::refparse::parse(&pat, fl) {
                    let hays: Vec<Hay> = hs.iter().map(|h| Hay::new(h.chars().map(|c| c as u32).collect())).collect();
                    eval_one(&format!("scale#{}", i), &ast, fl, &hays, run, &mut acc);
                }
                acc
            })
            .reduce(Acc::default, Acc::merge);
        total = total.merge(a);
    }
    (total.st, total.digests)
}

pub fn stats_to_json(st: &Stats, digests: &[(u64, u64)]) -> J {
    let mut clusters = Vec::new();
    for (k, c) in &st.clusters {
        clusters.push(J::obj().set("cluster", J::s(k)).set("count", J::u(c.count)).set("weight", J::u(c.weight as u64)).set("first", c.first.clone()));
    }
    let mut counters = J::obj();
    for (k, v) in &st.counters {
        counters.put(k, J::u(*v));
    }
    J::obj()
        .set("variant", J::s(&variant_name()))
        .set("counters", counters)
        .set("clusters", J::Arr(clusters))
        .set("known", J::Arr(st.known.iter().map(|(id, (n, w))| J::obj().set("id", J::s(id)).set("n", J::u(*n)).set("w", w.clone())).collect()))
        .set("samples", J::Arr(st.samples.clone()))
        .set("digest_count", J::u(digests.len() as u64))
}

/// Worker mode (other build variants): explore, write violations + per-pattern digests to files.
pub fn worker(out_prefix: &str) -> i32 {
    let run = Run::new("C06", "exploration");
    let (st, mut digests) = explore(&run);
    // one digest per (profile, pattern, flags) key: a pattern that two families generate is evaluated twice
    digests.sort();
    digests.dedup_by_key(|d| d.0);
    let mut bin = Vec::with_capacity(digests.len() * 16);
    for (a, b) in &digests {
        bin.extend_from_slice(&a.to_le_bytes());
        bin.extend_from_slice(&b.to_le_bytes());
    }
    if std::fs::write(format!("{}.bin", out_prefix), bin).is_err() || std::fs::write(format!("{}.json", out_prefix), stats_to_json(&st, &digests).pretty()).is_err() {
        eprintln!("MACHINERY: cannot write worker output {}", out_prefix);
        return 2;
    }
    println!("C06 worker [{}]: cases={} violations={}", variant_name(), st.get("evaluations"), st.total_violations());
    0
}

/// Main mode: merge the reports of the three workers (release-default first) and compare digests.
/// A worker that was killed by a signal (recorded by the driver in <prefix>.crash) is itself a
/// violation: in the unchecked build a broken position invariant is undefined behaviour.
pub fn c06(run: &mut Run, worker_prefixes: &[String]) -> Stats {
    let mut st = Stats::default();
    let mut mine: HashMap<u64, u64> = HashMap::new();
    let mut variants = Vec::new();
    for (wi, pre) in worker_prefixes.iter().enumerate() {
        let label = std::path::Path::new(pre).file_name().and_then(|f| f.to_str()).unwrap_or("?").to_string();
        if let Ok(sig) = std::fs::read_to_string(format!("{}.crash", pre)) {
            let case = J::obj().set("kind", J::s("worker_crash")).set("variant", J::s(&label)).set("what", J::s("the exploration process of this build variant was killed by a signal while running the subject: memory unsafety in the explored space (see the other variants' witnesses for the input)")).set("signal", J::s(sig.trim()));
            st.violation(&run.known, "C06", &format!("process crashed ({}) while exploring [{}]", sig.trim(), label), 0, case);
            variants.push(J::obj().set("variant", J::s(&label)).set("crashed", J::s(sig.trim())));
            continue;
        }
        let (Ok(txt), Ok(bin)) = (std::fs::read_to_string(format!("{}.json", pre)), std::fs::read(format!("{}.bin", pre))) else {
            st.error(format!("missing worker output {}", pre));
            continue;
        };
        let Ok(j) = json::parse(&txt) else {
            st.error(format!("bad worker json {}", pre));
            continue;
        };
        let vname = j.get("variant").and_then(|v| v.str()).unwrap_or("?").to_string();
        // relay the worker's violations and known findings
        for c in j.get("clusters").and_then(|c| c.arr()).cloned().unwrap_or_default() {
            let sig = c.get("cluster").and_then(|s| s.str()).unwrap_or("?").to_string();
            let count = c.get("count").and_then(|s| s.int()).unwrap_or(1) as u64;
            let weight = c.get("weight").and_then(|s| s.int()).unwrap_or(1) as usize;
            let first = c.get("first").cloned().unwrap_or(J::Null);
            st.violation(&run.known, "C06", &sig, weight, first);
            if let Some(cl) = st.clusters.get_mut(&sig) {
                cl.count += count.saturating_sub(1);
            }
        }
        for (k, v) in j.get("counters").and_then(|c| match c { J::Obj(o) => Some(o.clone()), _ => None }).unwrap_or_default() {
            if let Some(n) = v.int() {
                if matches!(k.as_str(), "evaluations" | "validated" | "transitions" | "nontrivial" | "undecided_fuel" | "patterns_evaluated") {
                    st.add(&k, n as u64);
                }
            }
        }
        for smp in j.get("samples").and_then(|c| c.arr()).cloned().unwrap_or_default().into_iter().take(4) {
            st.sample(|| smp);
        }
        let cases = j.get("counters").and_then(|c| c.get("evaluations")).and_then(|e| e.int()).unwrap_or(0) as u64;
        // digests
        let mut pairs: Vec<(u64, u64)> = Vec::new();
        for ch in bin.chunks_exact(16) {
            pairs.push((u64::from_le_bytes(ch[0..8].try_into().unwrap()), u64::from_le_bytes(ch[8..16].try_into().unwrap())));
        }
        if wi == 0 || mine.is_empty() {
            mine = pairs.iter().copied().collect();
            variants.push(J::obj().set("variant", J::s(&vname)).set("cases", J::u(cases)).set("patterns", J::u(pairs.len() as u64)).set("role", J::s("baseline for the comparison")));
            continue;
        }
        let mut differing = 0u64;
        let mut compared = 0u64;
        for (k, d) in &pairs {
            match mine.get(k) {
                Some(m) => {
                    compared += 1;
                    if *m == UNDECIDED || *d == UNDECIDED {
                        st.add("patterns_not_compared_fuel", 1);
                    } else if m != d {
                        differing += 1;
                    }
                }
                None => st.error(format!("variant {} evaluated a pattern the baseline variant did not (hash {:x})", vname, k)),
            }
        }
        if compared != mine.len() as u64 {
            st.error(format!("variant {} evaluated {} patterns, baseline {}", vname, compared, mine.len()));
        }
        st.add("patterns_compared_across_variants", compared);
        if differing > 0 {
            let case = J::obj().set("kind", J::s("variant_digest")).set("variant", J::s(&vname)).set("what", J::s("results differ between this build variant and the baseline build (same cases, different answers)")).set("patterns_differing", J::u(differing)).set("how_to_locate", J::s("mc c15-dump <key> in both variants prints the per-case results of one pattern; ./check C15 compares all six configurations"));
            st.violation(&run.known, "C06", &format!("results differ between build variants: {} vs baseline", vname), 1, case);
        }
        variants.push(J::obj().set("variant", J::s(&vname)).set("cases", J::u(cases)).set("patterns", J::u(compared)).set("patterns_differing_from_baseline", J::u(differing)));
    }
    run.extra.push(("variants".into(), J::Arr(variants)));
    run.rule = "every AST of the profiles dotcap, utf8, 1char, look, lit, icase, core, vset up to the size bound x flags x haystacks over {a, é, €, U+1F600 (+ profile letters)} (all four UTF-8 lengths, every adjacency, empty, both ends) x every start the API accepts (each char boundary, len, len+1; every byte offset for the ASCII entry points) x {backtracking via Regex::find_from, PikeVM, both ASCII entry points} x {optimised, no_opt}; run in each build variant listed under coverage.variants; non-trivial = at least one match".into();
    run.assumptions = vec![
        "monitors: (1) debug-assertions + overflow-checks build: every debug_assert in indexing / position / util / executors is an invariant checked at every step; (2) index-positions + prohibit-unsafe build: any out-of-range access panics; (3) every reported range satisfies 0 <= start <= end <= len and char boundaries; (4) all variants return identical results (per-pattern digests)".into(),
        "ASCII entry points on non-ASCII text are outside the documented precondition: explored for panics / out-of-range access only, not for the char-boundary clause".into(),
        "Miri and the u16 entry points are separate parts (see coverage.parts)".into(),
    ];
    st
}
