#!/bin/bash
# Build the framework offline from files on disk only. Every check rebuilds incrementally by itself;
# this just warms the build directories.
set -u
ROOT="$(cd "$(dirname "$0")" && pwd)"
export VERIF_ROOT="$ROOT" CARGO_NET_OFFLINE=true
"$ROOT/tools/build_all.sh"
